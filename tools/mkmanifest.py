#!/venv/bin/python
"""Regenerate /verif/MANIFEST.json from the registered check classes."""
import json, os, sys
sys.path.insert(0, os.path.dirname(os.path.dirname(os.path.abspath(__file__))))
from vcheck.props import available, get_check

ALL = ["C%02d" % i for i in range(1, 21)]
PENDING_REASON = "check not built yet in this round (planned in DESIGN.md section 4); will be claimed once its generator, oracle and sensitivity runs exist"

def main():
    have = available()
    checks = []
    for pid in have:
        c = get_check(pid)
        checks.append({
            "property_id": pid,
            "quick_cmd": "/venv/bin/python -m vcheck %s --tier quick" % pid,
            "thorough_cmd": "/venv/bin/python -m vcheck %s --tier thorough" % pid,
            "evidence_file": "/verif/evidence/%s.json" % pid,
            "replay_cmd_template": "/venv/bin/python -m vcheck %s --replay {path}" % pid,
            "engine": "vcheck",
            "level_claimed": {"category": c.level, "text": c.level_text, "design_ref": "DESIGN.md section 4, %s" % pid},
            "level_note": c.level_note,
            "technique": c.technique,
        })
    m = {
        "version": 1,
        "setup_cmd": "/venv/bin/python -c 'import hypothesis' 2>/dev/null || /venv/bin/pip install --no-index --find-links /opt/veriftools/wheels hypothesis; cd /verif && /venv/bin/python -m vcheck --selftest",
        "hooks": {
            "guard": "MAILBOX_SERVER_VERIF",
            "enable": "no in-repo hooks are needed: the harness replaces module attributes (time, random, os, sqlite3) of the imported repo modules from outside; checks import /repo/src from the current working tree",
            "baseline_off_cmd": "cd /repo && /venv/bin/python -m pytest -ra -q -p no:cacheprovider --timeout=900 --continue-on-collection-errors",
            "source_commits": [],
            "add_only": True
        },
        "engines": [{"name": "vcheck", "path": "/verif/vcheck", "serves_properties": have,
                     "kind_free_text": "Hypothesis-driven generation of protocol histories / crash points / file contents against the real service in-process (virtual clock, traced SQLite), explicit oracles (reference model, metamorphic/differential runs, invariants), script-level delta debugging, replay files"}],
        "checks": checks,
        "not_applicable": [{"property_id": p, "reason": PENDING_REASON} for p in ALL if p not in have],
        "notes": "All checks: cwd=/verif, VERIF_SEED honoured (default 1), exit 0 held / 1 VIOLATION / 2 harness error or vacuous run. Genuine defects repaired in /repo as unguarded fix: commits are listed in /verif/known_findings.json (status fixed) with their minimal replay, which every run re-executes first."
    }
    with open(os.path.join(os.path.dirname(os.path.dirname(os.path.abspath(__file__))), "MANIFEST.json"), "w") as f:
        json.dump(m, f, indent=1)
    print("MANIFEST.json: %d checks, %d pending" % (len(checks), len(m["not_applicable"])))

main()
