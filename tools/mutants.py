#!/venv/bin/python
"""Sensitivity runs: deliberate breakages of /repo (applied to scratch worktrees
outside /repo and /verif) x the checks that must catch them.

usage: tools/mutants.py [--only NAME_SUBSTR] [--seeds 1,2] [--out FILE]
Writes a JSON result file and prints a table.  Never touches /repo itself."""
import os, sys, json, subprocess, shutil, time, argparse, tempfile

SRC = "src/wormhole_mailbox_server/"
S, W, T, D = SRC + "server.py", SRC + "server_websocket.py", SRC + "server_tap.py", SRC + "database.py"

# (name, [properties expected to catch it], file, old, new)
M = [
 ("M01b-get_messages-no-mailbox-filter", ["C01"], S, '" WHERE `app_id`=? AND `mailbox_id`=?"\n                              " ORDER BY `server_rx` ASC",\n                              (self._app_id, self._mailbox_id)', '" WHERE `app_id`=?"\n                              " ORDER BY `server_rx` ASC",\n                              (self._app_id,)'),
 ("M01c-close-keeps-messages", ["C01", "C08", "C13"], S, '        db.execute("DELETE FROM `messages` WHERE `mailbox_id`=?",\n                   (self._mailbox_id,))\n        db.execute("DELETE FROM `mailbox_sides` WHERE `mailbox_id`=?",\n                   (self._mailbox_id,))\n        db.execute("DELETE FROM `mailboxes` WHERE `id`=?", (self._mailbox_id,))', '        db.execute("DELETE FROM `mailbox_sides` WHERE `mailbox_id`=?",\n                   (self._mailbox_id,))\n        db.execute("DELETE FROM `mailboxes` WHERE `id`=?", (self._mailbox_id,))'),
 ("M01d-prune-keeps-messages", ["C01", "C13"], S, '            db.execute("DELETE FROM `messages` WHERE `mailbox_id`=?",\n                       (mailbox_id,))\n', ''),
 ("M02a-broadcast-skips-sender", ["C02"], S, '        for (send_f, stop_f) in self._listeners.values():\n            send_f(sm)', '        for (handle, (send_f, stop_f)) in self._listeners.items():\n            if getattr(handle, "_side", None) != sm.side or len(self._listeners) == 1:\n                send_f(sm)'),
 ("M02b-side-from-message", ["C02"], W, 'sm = SidedMessage(side=self._side, phase=msg["phase"],', 'sm = SidedMessage(side=msg.get("side", self._side), phase=msg["phase"],'),
 ("M02c-listener-not-removed-on-disconnect", ["C02", "C12", "C15"], W, '        if self._mailbox and self._listening:\n            self._mailbox.remove_listener(self)', '        if self._mailbox and self._listening and self._did_close:\n            self._mailbox.remove_listener(self)'),
 ("M03a-claim-lookup-without-app", ["C03", "C06"], S, '        row = db.execute("SELECT * FROM `nameplates`"\n                         " WHERE `app_id`=? AND `name`=?",\n                         (self._app_id, name)).fetchone()\n        if not row:\n            if self._log_requests:', '        row = db.execute("SELECT * FROM `nameplates`"\n                         " WHERE `name`=?",\n                         (name,)).fetchone()\n        if not row:\n            if self._log_requests:'),
 ("M03b-mailbox-id-from-name", ["C03"], S, '            mailbox_id = generate_mailbox_id()\n', '            mailbox_id = base64.b32encode((name + "-" * 8).encode("utf-8")[:8]).lower().strip(b"=").decode("ascii")\n'),
 ("M04a-allocator-uses-gated-listing", ["C04", "C18"], S, '        claimed = self._get_nameplate_ids()\n        for size in range(1,4)', '        claimed = self.get_nameplate_ids()\n        for size in range(1,4)'),
 ("M04b-range-off-by-one", ["C04"], S, 'for id_int in range(10**(size-1), 10**size):', 'for id_int in range(10**(size-1), 10**size - 1):'),
 ("M04c-allocate-does-not-claim", ["C04"], S, '        mailbox_id = self.claim_nameplate(nameplate_id, side, when)\n        del mailbox_id # ignored', '        mailbox_id = None\n        del mailbox_id # ignored'),
 ("M05a-crowd-counts-open-sides-only", ["C05"], S, '" WHERE `mailbox_id`=? ORDER BY rowid",\n                          (mailbox_id,)).fetchall()', '" WHERE `mailbox_id`=? AND `opened`=1 ORDER BY rowid",\n                          (mailbox_id,)).fetchall()'),
 ("M05b-crowd-three-allowed", ["C05"], S, '        if len(rows) > 2 and side not in [row["side"] for row in rows[:2]]:\n            raise CrowdedError("too many sides have opened this mailbox")', '        if len(rows) > 3 and side not in [row["side"] for row in rows[:2]]:\n            raise CrowdedError("too many sides have opened this mailbox")'),
 ("M06a-list-without-app-filter", ["C06", "C07", "C18", "C04"], S, '        c = db.execute("SELECT DISTINCT `name` FROM `nameplates`"\n                       " WHERE `app_id`=?", (self._app_id,))', '        c = db.execute("SELECT DISTINCT `name` FROM `nameplates`")'),
 ("M06b-release-lookup-without-app", ["C06", "C07"], S, '        np_row = db.execute("SELECT * FROM `nameplates`"\n                            " WHERE `app_id`=? AND `name`=?",\n                            (self._app_id, name)).fetchone()', '        np_row = db.execute("SELECT * FROM `nameplates`"\n                            " WHERE `name`=?",\n                            (name,)).fetchone()'),
 ("M07a-release-deletes-on-any-release", ["C07"], S, '        claims = [1 for sr in side_rows if sr["claimed"]]\n        if claims:\n            return', '        claims = [1 for sr in side_rows if sr["claimed"] and sr["side"] == side]\n        if claims:\n            return'),
 ("M07b-reclaim-allowed", ["C07"], S, '            if not row["claimed"]:\n                raise ReclaimedError(', '            if not row["claimed"] and False:\n                raise ReclaimedError('),
 ("M07c-revert-R1-delete-by-side", ["C07", "C08", "C06", "C17"], S, '        db.execute("DELETE FROM `nameplate_sides` WHERE `nameplates_id` IN"\n                   " (SELECT `id` FROM `nameplates` WHERE `mailbox_id`=?)",\n                   (self._mailbox_id,))', '        db.execute("DELETE FROM `nameplate_sides` WHERE `side`=?",\n                   (side,))'),
 ("M08a-delete-on-first-close", ["C08", "C01"], S, '        if any([sr["opened"] for sr in side_rows]):\n            return\n\n        # nope. delete and summarize', '        if any([sr["opened"] for sr in side_rows]) and len(side_rows) > 2:\n            return\n\n        # nope. delete and summarize'),
 ("M08b-close-leaves-nameplate", ["C08", "C07"], S, '        db.execute("DELETE FROM `nameplates` WHERE `mailbox_id`=?",\n                   (self._mailbox_id,))', '        db.execute("UPDATE `nameplates` SET `mailbox_id`=NULL WHERE `mailbox_id`=?",\n                   (self._mailbox_id,))'),
 ("M09a-add-without-commit", ["C09"], S, '        self._touch(sm.server_rx)\n        self._db.commit()', '        self._touch(sm.server_rx)'),
 ("M09b-release-final-commit-dropped", ["C09"], S, '            self._summarize_nameplate_and_store(side_rows, when, pruned=False)\n            self._usage_db.commit()\n        db.commit()', '            self._summarize_nameplate_and_store(side_rows, when, pruned=False)\n            self._usage_db.commit()'),
 ("M09c-broadcast-before-commit", ["C09"], S, '        self._add_message(sm)\n        self.broadcast_message(sm)', '        self.broadcast_message(sm)\n        self._add_message(sm)'),
 ("M09d-synchronous-off", ["C09"], D, '    db.execute("PRAGMA foreign_keys = ON")', '    db.execute("PRAGMA foreign_keys = ON")\n    db.execute("PRAGMA synchronous = OFF")'),
 ("M10a-revert-R6", ["C10"], S, '        first = times[0] if times else delete_time', '        first = times[0]'),
 ("M10b-nameplate-and-side-in-two-commits", ["C10"], S, '            npid = db.execute(sql, (self._app_id, name, mailbox_id)\n                              ).lastrowid', '            npid = db.execute(sql, (self._app_id, name, mailbox_id)\n                              ).lastrowid\n            db.commit()'),
 ("M11a-memoised-nameplate-lookup", ["C11"], S, '        row = db.execute("SELECT * FROM `nameplates`"\n                         " WHERE `app_id`=? AND `name`=?",\n                         (self._app_id, name)).fetchone()\n        if not row:\n            if self._log_requests:', '        cache = self.__dict__.setdefault("_np_cache", {})\n        row = db.execute("SELECT * FROM `nameplates`"\n                         " WHERE `app_id`=? AND `name`=?",\n                         (self._app_id, name)).fetchone()\n        if row:\n            cache[name] = row["mailbox_id"]\n        elif name in cache:\n            self._add_mailbox(cache[name], True, side, when)\n            npid = db.execute("INSERT INTO `nameplates` (`app_id`, `name`, `mailbox_id`) VALUES(?,?,?)", (self._app_id, name, cache[name])).lastrowid\n            row = dict(id=npid, mailbox_id=cache[name])\n        if not row:\n            if self._log_requests:'),
 ("M11b-revert-R5", ["C11", "C02", "C12"], S, '            if not in_use and not existed:', '            if not in_use:'),
 ("M12a-expiry-comparison-shifted", ["C12"], S, '            if row["updated"] > old:', '            if row["updated"] > old + 60:'),
 ("M12b-open-does-not-touch", ["C12"], S, '        self._touch(when)\n        db.commit() # XXX', '        db.commit() # XXX'),
 ("M12c-sweep-touches-with-old", ["C12"], S, '                mailbox._touch(now)', '                mailbox._touch(old)'),
 ("M12d-cutoff-from-period", ["C12"], T, '        old = now - CHANNEL_EXPIRATION_TIME', '        old = now - EXPIRATION_CHECK_PERIOD'),
 ("M12e-prune-deletes-messages-too-broadly", ["C12", "C01", "C06"], S, '            db.execute("DELETE FROM `messages` WHERE `mailbox_id`=?",\n                       (mailbox_id,))\n            db.execute("DELETE FROM `mailbox_sides` WHERE `mailbox_id`=?",\n                       (mailbox_id,))\n            db.execute("DELETE FROM `mailboxes` WHERE `id`=?",\n                       (mailbox_id,))', '            db.execute("DELETE FROM `messages` WHERE `app_id`=?",\n                       (self._app_id,))\n            db.execute("DELETE FROM `mailbox_sides` WHERE `mailbox_id`=?",\n                       (mailbox_id,))\n            db.execute("DELETE FROM `mailboxes` WHERE `id`=?",\n                       (mailbox_id,))'),
 ("M13a-get_all_apps-ignores-mailboxes", ["C13"], S, '        for row in self._db.execute("SELECT DISTINCT `app_id`"\n                                    " FROM `mailboxes`").fetchall():\n            apps.add(row["app_id"])\n', ''),
 ("M13c-expire-without-try", ["C13"], T, '        try:\n            server.prune_all_apps(now, old)\n        except Exception as e:\n            # catch-and-log exceptions during prune, so a single error won\'t\n            # kill the loop. See #13 for details.\n            log.msg("error during prune_all_apps")\n            log.err(e)', '        server.prune_all_apps(now, old)'),
 ("M13d-sweep-skips-standalone-mailboxes", ["C13"], S, '            if row["updated"] > old:\n                new_mailboxes.add(mailbox_id)', '            if row["updated"] > old or not row["for_nameplate"]:\n                new_mailboxes.add(mailbox_id)'),
 ("M14a-mailbox-side-inserted-unconditionally", ["C14", "C10"], S, '        if not already:\n            db.execute("INSERT INTO `mailbox_sides`"', '        if True:\n            db.execute("INSERT INTO `mailbox_sides`"'),
 ("M14b-reopen-reopens-side", ["C08", "C14"], S, '        if not already:\n            db.execute("INSERT INTO `mailbox_sides`"\n                       " (`mailbox_id`, `opened`, `side`, `added`)"\n                       " VALUES(?,?,?,?)",\n                       (self._mailbox_id, True, side, when))', '        if not already:\n            db.execute("INSERT INTO `mailbox_sides`"\n                       " (`mailbox_id`, `opened`, `side`, `added`)"\n                       " VALUES(?,?,?,?)",\n                       (self._mailbox_id, True, side, when))\n        else:\n            db.execute("UPDATE `mailbox_sides` SET `opened`=? WHERE `mailbox_id`=? AND `side`=?", (True, self._mailbox_id, side))'),
 ("M14c-revert-R8", ["C14"], S, '        self._touch(when)\n        db.commit()\n\n        # are any sides still open?', '        db.commit()\n\n        # are any sides still open?'),
 ("M15a-revert-R2", ["C15"], S, '            for np_sides in np_side_rows:\n                self._app._summarize_nameplate_and_store(np_sides, when,\n                                                         pruned=False)\n', ''),
 ("M15b-precedence-swapped", ["C15"], S, '        if "errory" in moods:\n            result = "errory"\n        if "scary" in moods:\n            result = "scary"', '        if "scary" in moods:\n            result = "scary"\n        if "errory" in moods:\n            result = "errory"'),
 ("M15c-prune-records-nameplate-twice", ["C15"], S, '                self._summarize_nameplate_and_store(side_rows, now, pruned=True)\n            modified = True', '                self._summarize_nameplate_and_store(side_rows, now, pruned=True)\n                if len(side_rows) > 1:\n                    self._summarize_nameplate_and_store(side_rows, now, pruned=True)\n            modified = True'),
 ("M15d-waiting-time-from-last-side", ["C15"], S, '        if len(times) > 1:\n            waiting_time = times[1] - times[0]\n        total_time = delete_time - first', '        if len(times) > 1:\n            waiting_time = times[-1] - times[0]\n        total_time = delete_time - first'),
 ("M16a-client-version-unblurred", ["C16"], S, '        if self._blur_usage:\n            server_rx = self._blur_usage * (server_rx // self._blur_usage)\n        implementation = client_version[0]', '        implementation = client_version[0]'),
 ("M16b-round-instead-of-floor", ["C16"], S, '            started = self._blur_usage * (started // self._blur_usage)\n        waiting_time = None\n        if len(times) > 1:\n            waiting_time = times[1] - times[0]\n        total_time = delete_time - times[0]', '            started = self._blur_usage * round(started / self._blur_usage)\n        waiting_time = None\n        if len(times) > 1:\n            waiting_time = times[1] - times[0]\n        total_time = delete_time - times[0]'),
 ("M17a-ack-after-dispatch-for-ping", ["C17"], W, '            self.send("ack", id=msg.get("id"))\n\n            mtype = msg["type"]\n            if mtype == "ping":\n                return self.handle_ping(msg)', '            mtype = msg["type"]\n            if mtype == "ping":\n                self.handle_ping(msg)\n                return self.send("ack", id=msg.get("id"))\n            self.send("ack", id=msg.get("id"))'),
 ("M17b-error-without-orig-for-unknown", ["C17"], W, '            raise Error("unknown type")\n        except Error as e:\n            self.send("error", error=e._explain, orig=msg)', '            raise Error("unknown type")\n        except Error as e:\n            if e._explain == "unknown type":\n                return self.send("error", error=e._explain)\n            self.send("error", error=e._explain, orig=msg)'),
 ("M17c-release-flag-not-set", ["C17"], W, '        self._did_release = True\n        self._app.release_nameplate', '        self._app.release_nameplate'),
 ("M17d-claim-validated-after-write", ["C17"], W, '        if self._did_claim:\n            raise Error("only one claim per connection")\n        self._did_claim = True\n        nameplate_id = msg["nameplate"]', '        nameplate_id = msg["nameplate"]\n        if self._did_claim:\n            self._app.claim_nameplate(nameplate_id, self._side, server_rx)\n            raise Error("only one claim per connection")\n        self._did_claim = True'),
 ("M18b-usage-branch-changes-channel", ["C18"], S, '        if self._usage_db:\n            self._summarize_nameplate_and_store(side_rows, when, pruned=False)\n            self._usage_db.commit()\n        db.commit()', '        if self._usage_db:\n            self._summarize_nameplate_and_store(side_rows, when, pruned=False)\n            self._usage_db.commit()\n            db.execute("UPDATE `mailboxes` SET `updated`=? WHERE `id`=?", (when, np_row["mailbox_id"]))\n        db.commit()'),
 ("M19a-create-at-target-path", ["C19"], D, '    temp_dbfile = _get_temporary_dbfile(dbfile)\n    db = _open_db_connection(temp_dbfile)\n    _initialize_db_schema(db, name, target_version)\n    db.close()\n    os.rename(temp_dbfile, dbfile)\n    return _open_db_connection(dbfile)', '    db = _open_db_connection(dbfile)\n    _initialize_db_schema(db, name, target_version)\n    return db'),
 ("M19b-rename-before-schema", ["C19"], D, '    db = _open_db_connection(temp_dbfile)\n    _initialize_db_schema(db, name, target_version)\n    db.close()\n    os.rename(temp_dbfile, dbfile)', '    db = _open_db_connection(temp_dbfile)\n    os.rename(temp_dbfile, dbfile)\n    _initialize_db_schema(db, name, target_version)\n    db.close()'),
 ("M19c-open-writes-on-rejection", ["C19"], D, '    db.row_factory = dict_factory\n    db.execute("PRAGMA foreign_keys = ON")', '    db.row_factory = dict_factory\n    db.execute("PRAGMA user_version = 1")\n    db.execute("PRAGMA foreign_keys = ON")'),
 ("M20a-backup-after-upgrade", ["C20"], D, '        db.executescript(upgrader)\n        db.commit()\n        version = version+1', '        db.executescript(upgrader)\n        db.commit()\n        shutil.copy(dbfile, backup_fn)\n        version = version+1'),
 ("M20b-revert-R7", ["C20"], SRC + "db-schemas/upgrade-usage-to-v2.sql", "BEGIN;\n", ""),
]


def sh(cmd, cwd=None, env=None, timeout=3600):
    p = subprocess.run(cmd, shell=True, cwd=cwd, env=env, stdout=subprocess.PIPE, stderr=subprocess.STDOUT, text=True, timeout=timeout)
    return p.returncode, p.stdout


def main():
    ap = argparse.ArgumentParser()
    ap.add_argument("--only", default="")
    ap.add_argument("--seeds", default="1,2")
    ap.add_argument("--out", default="/tmp/mutants-result.json")
    ap.add_argument("--skip-tests", action="store_true")
    args = ap.parse_args()
    seeds = [int(x) for x in args.seeds.split(",")]
    verif = os.path.dirname(os.path.dirname(os.path.abspath(__file__)))
    results = []
    for name, props, path, old, new in M:
        if args.only and args.only not in name:
            continue
        wt = tempfile.mkdtemp(prefix="mut-", dir="/tmp")
        os.rmdir(wt)
        rc, out = sh("git -C /repo worktree add -q --detach %s HEAD" % wt)
        try:
            if rc != 0:
                results.append(dict(name=name, error="worktree: " + out[-300:]))
                continue
            fp = os.path.join(wt, path)
            src = open(fp).read()
            if src.count(old) != 1:
                results.append(dict(name=name, error="pattern occurs %d times" % src.count(old)))
                print("%-48s PATTERN ERROR (%d)" % (name, src.count(old)))
                continue
            open(fp, "w").write(src.replace(old, new))
            rec = dict(name=name, expected=props, tests=None, checks={})
            if not args.skip_tests:
                rc, out = sh("PYTHONPATH=%s/src /venv/bin/python -m pytest -q -p no:cacheprovider --timeout=900 -x 2>&1 | tail -3" % wt, cwd=wt)
                rec["tests"] = "pass" if " passed" in out and "failed" not in out and "error" not in out.lower() else "FAIL: " + out.strip()[-200:]
            for p in props:
                for seed in seeds:
                    ev = tempfile.mkdtemp(prefix="mut-ev-", dir="/tmp")
                    env = dict(os.environ, VCHECK_REPO=wt, VERIF_SEED=str(seed), VCHECK_EVIDENCE_DIR=ev, VCHECK_OUT_DIR=ev, VCHECK_NOMIN="1")
                    t0 = time.time()
                    rc, out = sh("/venv/bin/python -m vcheck %s --tier quick" % p, cwd=verif, env=env)
                    dt = time.time() - t0
                    first = [l for l in out.splitlines() if l.startswith("VIOLATION") or l.startswith("  ")][:2]
                    rec["checks"]["%s/seed%d" % (p, seed)] = dict(rc=rc, wall=round(dt, 1), msg=" | ".join(x.strip()[:160] for x in first))
                    shutil.rmtree(ev, ignore_errors=True)
            results.append(rec)
            caught = {k: v["rc"] for k, v in rec["checks"].items()}
            print("%-48s tests=%s  %s" % (name, (rec["tests"] or "-")[:12], " ".join("%s:%s" % (k, "CAUGHT" if v == 1 else ("miss" if v == 0 else "rc%d" % v)) for k, v in caught.items())))
            sys.stdout.flush()
        finally:
            sh("git -C /repo worktree remove --force %s" % wt)
            shutil.rmtree(wt, ignore_errors=True)
        json.dump(results, open(args.out, "w"), indent=1)
    json.dump(results, open(args.out, "w"), indent=1)


main()
