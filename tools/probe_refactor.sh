#!/bin/bash
# usage: tools/probe_refactor.sh <worktree-with-change-applied> [seed]
# runs every check (quick) against a scratch worktree that carries a behaviour-preserving refactoring:
# any VIOLATION is either a false alarm of ours or a bug of the refactoring and must be analysed by hand.
cd "$(dirname "$0")/.."
wt=$1; seed=${2:-1}
export VCHECK_REPO=$wt VCHECK_EVIDENCE_DIR=$(mktemp -d /tmp/ev-refac-XXXX); export VCHECK_OUT_DIR=$VCHECK_EVIDENCE_DIR
for i in $(seq -w 1 20); do
  out=$(VERIF_SEED=$seed /venv/bin/python -m vcheck C$i --tier quick 2>&1); rc=$?
  echo "C$i rc=$rc $(echo "$out" | grep -E '^(OK|VIOLATION|VACUOUS|HARNESS)' | head -1 | cut -c1-200)"
  if [ $rc -ne 0 ]; then echo "$out" | grep -A2 VIOLATION | head -6 | cut -c1-500; echo "   (replays in $VCHECK_OUT_DIR)"; fi
done
