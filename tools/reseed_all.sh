#!/bin/bash
# re-confirm every stored seeded change against the current /repo HEAD and re-run our checks on it
cd "$(dirname "$0")/.."
for d in seeded/C*/; do
  name=$(basename $d); prop=${name%%-*}
  echo "=== $name"
  /venv/bin/python tools/try_seed.py $prop /verif/seeded/$name --name $name --seeds ${SEEDS:-1,2} 2>&1 | cut -c1-300
done
