#!/bin/bash
# usage: tools/run_all.sh <seed> [tier]   - every check once on /repo, summary on stdout
# (evidence goes to a scratch dir unless KEEP_EVIDENCE=1)
cd "$(dirname "$0")/.."
seed=${1:-1}; tier=${2:-quick}
if [ -z "$KEEP_EVIDENCE" ]; then export VCHECK_EVIDENCE_DIR=$(mktemp -d /tmp/ev-all-XXXX); export VCHECK_OUT_DIR=$VCHECK_EVIDENCE_DIR; fi
for i in $(seq -w 1 20); do
  out=$(VERIF_SEED=$seed /venv/bin/python -m vcheck C$i --tier $tier 2>&1); rc=$?
  echo "seed=$seed C$i rc=$rc $(echo "$out" | grep -E '^(OK|VIOLATION|VACUOUS|HARNESS)' | head -2 | tr '\n' ' ' | cut -c1-260)"
  if [ $rc -ne 0 ]; then echo "$out" | tail -5 | cut -c1-400; fi
done
