#!/bin/bash
# usage: tools/seed_batch.sh <seed_root> <suffix> <prop>...   (sequential)
root=$1; suffix=$2; shift 2
cd "$(dirname "$0")/.."
for p in "$@"; do
  echo "=== $p$suffix"
  if [ -f $root/$p/SEED/patch.diff ]; then /venv/bin/python tools/try_seed.py $p $root/$p --name $p$suffix 2>&1 | cut -c1-420; else echo "no seed yet"; fi
done
