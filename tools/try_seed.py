#!/venv/bin/python
"""Confirm a seeded change produced by a sub-agent and run our checks on it.

usage: tools/try_seed.py <PROP> <seed_dir_with_SEED> [--name NAME] [--checks C01,C08] [--seeds 1,2] [--tier quick]
Everything happens in a fresh scratch worktree of /repo HEAD (never /repo itself).
On success the change is stored as /verif/seeded/<NAME>/{patch.diff,demo.py,meta.json}."""
import os, sys, json, subprocess, shutil, tempfile, argparse, time


def sh(cmd, cwd=None, env=None, timeout=7200):
    p = subprocess.run(cmd, shell=True, cwd=cwd, env=env, stdout=subprocess.PIPE, stderr=subprocess.STDOUT, text=True, timeout=timeout)
    return p.returncode, p.stdout


def main():
    ap = argparse.ArgumentParser()
    ap.add_argument("prop")
    ap.add_argument("src")
    ap.add_argument("--name")
    ap.add_argument("--checks")
    ap.add_argument("--seeds", default="1,2")
    ap.add_argument("--tier", default="quick")
    args = ap.parse_args()
    verif = os.path.dirname(os.path.dirname(os.path.abspath(__file__)))
    seed_dir = os.path.join(args.src, "SEED") if os.path.isdir(os.path.join(args.src, "SEED")) else args.src
    name = args.name or args.prop
    dst = os.path.join(verif, "seeded", name)
    patch = os.path.join(seed_dir, "patch.diff")
    demo = os.path.join(seed_dir, "demo.py")
    meta = json.load(open(os.path.join(seed_dir, "meta.json")))
    wt = tempfile.mkdtemp(prefix="seedwt-", dir="/tmp")
    os.rmdir(wt)
    rc, out = sh("git -C /repo worktree add -q --detach %s HEAD" % wt)
    assert rc == 0, out
    report = {}
    try:
        env = dict(os.environ, PYTHONPATH=wt + "/src")
        os.makedirs(wt + "/SEED", exist_ok=True)
        shutil.copy(demo, wt + "/SEED/demo.py")
        for f in os.listdir(seed_dir):
            if f not in ("patch.diff", "meta.json", "demo.py") and os.path.isfile(os.path.join(seed_dir, f)):
                shutil.copy(os.path.join(seed_dir, f), wt + "/SEED/" + f)
        rc0, out0 = sh("/venv/bin/python SEED/demo.py", cwd=wt, env=env, timeout=600)
        report["demo_without_change_rc"] = rc0
        rc, out = sh("git apply %s" % patch, cwd=wt)
        if rc != 0:
            print("PATCH DOES NOT APPLY:", out)
            return 2
        rc1, out1 = sh("/venv/bin/python SEED/demo.py", cwd=wt, env=env, timeout=600)
        report["demo_with_change_rc"] = rc1
        report["demo_with_change_tail"] = out1.strip()[-400:]
        rct, outt = sh("/venv/bin/python -m pytest -q -p no:cacheprovider --timeout=900 2>&1 | tail -2", cwd=wt, env=env)
        report["tests_with_change"] = outt.strip().splitlines()[-1] if outt.strip() else ""
        ok = rc0 == 0 and rc1 != 0 and " passed" in outt and "failed" not in outt
        report["confirmed"] = ok
        print("demo without=%s with=%s tests: %s => confirmed=%s" % (rc0, rc1, report["tests_with_change"], ok))
        if not ok:
            print(out0[-500:], out1[-500:])
            return 1
        checks = (args.checks.split(",") if args.checks else [args.prop])
        report["checks"] = {}
        for c in checks:
            for seed in [int(x) for x in args.seeds.split(",")]:
                ev = tempfile.mkdtemp(prefix="seed-ev-", dir="/tmp")
                env2 = dict(os.environ, VCHECK_REPO=wt, VERIF_SEED=str(seed), VCHECK_EVIDENCE_DIR=ev, VCHECK_OUT_DIR=ev)
                t0 = time.time()
                rc, out = sh("/venv/bin/python -m vcheck %s --tier %s" % (c, args.tier), cwd=verif, env=env2)
                first = [l.strip() for l in out.splitlines() if l.startswith("VIOLATION") or l.startswith("  ")][:2]
                report["checks"]["%s/seed%d" % (c, seed)] = dict(rc=rc, wall_s=round(time.time() - t0, 1), first=" | ".join(first)[:500])
                print("  %s seed=%d -> rc=%d (%.0fs) %s" % (c, seed, rc, time.time() - t0, (" | ".join(first))[:300]))
                shutil.rmtree(ev, ignore_errors=True)
        os.makedirs(dst, exist_ok=True)
        if os.path.abspath(seed_dir) != os.path.abspath(dst):
            shutil.copy(patch, dst + "/patch.diff")
            shutil.copy(demo, dst + "/demo.py")
        meta2 = {k: v for k, v in meta.items() if k not in ("our_checks", "confirmed_by_us")}
        meta2["breaks_property"] = args.prop
        meta2["confirmed_by_us"] = {"base": sh("git -C /repo rev-parse --short HEAD")[1].strip(),
                                    "demo_rc_without_change": rc0, "demo_rc_with_change": rc1,
                                    "existing_tests_with_change": report["tests_with_change"],
                                    "how": "fresh scratch worktree of /repo HEAD under /tmp; PYTHONPATH=<wt>/src /venv/bin/python SEED/demo.py before and after `git apply patch.diff`; full pytest suite with the change; then VCHECK_REPO=<wt> /venv/bin/python -m vcheck <check> --tier %s with VERIF_SEED in {%s}" % (args.tier, args.seeds)}
        meta2["our_checks"] = report["checks"]
        json.dump(meta2, open(dst + "/meta.json", "w"), indent=1)
        return 0
    finally:
        sh("git -C /repo worktree remove --force %s" % wt)
        shutil.rmtree(wt, ignore_errors=True)


sys.exit(main())
