"""vcheck - property-based verification machinery for magic-wormhole-mailbox-server.

Run as: /venv/bin/python -m vcheck <PROPERTY-ID> --tier quick|thorough
The package always imports the repository from $VCHECK_REPO/src (default
/repo/src), i.e. from the current working tree.
"""
import os, sys

REPO = os.environ.get("VCHECK_REPO", "/repo")
_src = os.path.join(REPO, "src")
if _src not in sys.path:
    sys.path.insert(0, _src)

VERIF_DIR = os.path.dirname(os.path.dirname(os.path.abspath(__file__)))
