import os, sys, argparse, warnings
warnings.simplefilter("ignore")


def main():
    ap = argparse.ArgumentParser(prog="vcheck")
    ap.add_argument("property", nargs="?")
    ap.add_argument("--tier", default=os.environ.get("VERIF_TIER", "quick"), choices=["quick", "thorough"])
    ap.add_argument("--replay")
    ap.add_argument("--selftest", action="store_true")
    ap.add_argument("--seed", default=os.environ.get("VERIF_SEED", "1"))
    args = ap.parse_args()
    try:
        seed = int(args.seed)
    except ValueError:
        seed = 1
    from . import runner
    from .props import get_check, available
    if args.selftest:
        from .selftest import selftest
        return selftest()
    if not args.property:
        print("available:", " ".join(available()))
        return 0
    try:
        check = get_check(args.property)
    except Exception:
        import traceback
        traceback.print_exc()
        return 2
    if args.replay:
        try:
            return runner.run_single_replay(check, args.replay)
        except Exception:
            import traceback
            traceback.print_exc()
            return 2
    try:
        return runner.run_check(check, args.tier, seed)
    except Exception:
        import traceback
        traceback.print_exc()
        return 2


if __name__ == "__main__":
    sys.exit(main())
