"""Canonical forms for differential comparison of two runs.

Generated mailbox ids and nameplate rowids legitimately differ between runs:
every generated id is replaced by M<n> in order of first appearance within
the compared projection; side rows and messages are nested under their parent
instead of being joined by rowid/id."""


def script_literals(script):
    out = set()

    def walk(v):
        if isinstance(v, str):
            out.add(v)
        elif isinstance(v, dict):
            for x in v.values():
                walk(x)
        elif isinstance(v, list):
            for x in v:
                walk(x)
    for op in script:
        if op.get("op") == "send":
            walk(op["msg"])
    return out


class Canon(object):
    def __init__(self, literals=()):
        self.literals = set(literals)
        self.map = {}

    def name(self, mid):
        if mid is None or mid in self.literals:
            return mid
        if mid not in self.map:
            self.map[mid] = "M%d" % (len(self.map) + 1)
        return self.map[mid]

    def deep(self, v):
        if isinstance(v, str):
            return self.map.get(v, v)
        if isinstance(v, dict):
            return {k: self.deep(x) for k, x in v.items()}
        if isinstance(v, list):
            return [self.deep(x) for x in v]
        return v

    def frame(self, f, drop=("server_tx",)):
        f = {k: v for k, v in f.items() if k not in drop}
        if f.get("type") == "claimed" and isinstance(f.get("mailbox"), str):
            self.name(f["mailbox"])
        return self.deep(f)

    def snapshot(self, snap, app=None, not_app=None):
        """Canonical channel snapshot, optionally restricted to one app (or to
        everything but one app)."""
        def keep(a):
            if app is not None:
                return a == app
            if not_app is not None:
                return a != not_app
            return True
        np_sides = {}
        for r in snap["nameplate_sides"]:
            np_sides.setdefault(r[0], []).append((r[2], r[1], r[3]))
        mb_sides = {}
        for r in snap["mailbox_sides"]:
            mb_sides.setdefault(r[0], []).append((r[2], r[1], r[3], r[4]))
        msgs = {}
        for r in snap["messages"]:
            msgs.setdefault((r[0], r[1]), []).append((r[2], r[3], r[4], r[5], r[6]))
        nps = []
        for r in sorted((r for r in snap["nameplates"] if keep(r[1])), key=lambda r: (repr(r[1]), repr(r[2]), r[0])):
            nps.append((r[1], r[2], self.name(r[3]), sorted(np_sides.get(r[0], []), key=repr)))
        mbs = []
        rows = [r for r in snap["mailboxes"] if keep(r[0])]

        def content(r):
            return (repr(r[0]), r[2], r[3], sorted(mb_sides.get(r[1], []), key=repr),
                    sorted(msgs.get((r[0], r[1]), []), key=repr))
        known = [r for r in rows if r[1] in self.map or r[1] in self.literals]
        unknown = sorted((r for r in rows if not (r[1] in self.map or r[1] in self.literals)), key=lambda r: repr(content(r)))
        for r in unknown:
            self.name(r[1])
        for r in rows:
            mbs.append((r[0], self.name(r[1]), r[2], r[3], sorted(mb_sides.get(r[1], []), key=repr),
                        sorted(msgs.get((r[0], r[1]), []), key=repr)))
        mbs.sort(key=repr)
        # messages without mailbox row (should not exist, but must be compared)
        live = set((r[0], r[1]) for r in snap["mailboxes"])
        orphans = sorted(((k[0], self.name(k[1]), v) for k, v in msgs.items() if k not in live and keep(k[0])), key=repr)
        return {"nameplates": nps, "mailboxes": mbs, "orphan_messages": orphans}

    def usage(self, usnap, app=None):
        if usnap is None:
            return None
        out = {}
        for t in ("nameplates", "mailboxes", "client_versions"):
            rows = [r[:-1] for r in usnap[t] if app is None or r[0] == app]
            out[t] = sorted(rows, key=repr)
        return out
