"""Process-death injection for database.py (C19, C20): the code under test
runs in a forked child; an event counter covers every file-system call and
SQL statement it makes; at event k the child calls os._exit() - no Python
cleanup, no SQLite cleanup: a real process death."""
import os, sys, json, sqlite3, tempfile, shutil

from . import REPO  # noqa: F401


class _Events(object):
    def __init__(self, crash_at, log_path):
        self.n = 0
        self.crash_at = crash_at
        self.log = open(log_path, "a")

    def hit(self, name):
        self.log.write("%d %s\n" % (self.n, name.replace("\n", " ")[:80]))
        self.log.flush()
        if self.crash_at is not None and self.n == self.crash_at:
            os._exit(42)
        self.n += 1


def _install(ev):
    from wormhole_mailbox_server import database

    class Conn(sqlite3.Connection):
        def commit(self):
            ev.hit("commit:before")
            sqlite3.Connection.commit(self)
            ev.hit("commit:after")

        def close(self):
            ev.hit("close:before")
            sqlite3.Connection.close(self)
            ev.hit("close:after")

    class SqliteShim(object):
        def connect(self, path, *a, **kw):
            ev.hit("connect:before")
            kw.setdefault("factory", Conn)
            c = sqlite3.connect(path, *a, **kw)
            c.set_trace_callback(lambda sql: ev.hit("sql " + sql.strip()[:60]))
            ev.hit("connect:after")
            return c

        def __getattr__(self, name):
            return getattr(sqlite3, name)

    class TempShim(object):
        def mkstemp(self, *a, **kw):
            ev.hit("mkstemp:before")
            r = tempfile.mkstemp(*a, **kw)
            ev.hit("mkstemp:after")
            return r

        def __getattr__(self, name):
            return getattr(tempfile, name)

    class OsShim(object):
        path = os.path

        def close(self, fd):
            ev.hit("os.close:before")
            os.close(fd)
            ev.hit("os.close:after")

        def rename(self, a, b):
            ev.hit("rename:before")
            os.rename(a, b)
            ev.hit("rename:after")

        def replace(self, a, b):
            ev.hit("replace:before")
            os.replace(a, b)
            ev.hit("replace:after")

        def __getattr__(self, name):
            return getattr(os, name)

    class ShutilShim(object):
        def copy(self, a, b, *x, **kw):
            ev.hit("copy:before")
            # a copy is not atomic: die half-way through as well
            with open(a, "rb") as f:
                data = f.read()
            with open(b, "wb") as g:
                g.write(data[:len(data) // 2])
                g.flush()
                ev.hit("copy:half")
                g.write(data[len(data) // 2:])
            shutil.copymode(a, b)
            ev.hit("copy:after")
            return b

        def copyfile(self, a, b, *x, **kw):
            return self.copy(a, b)

        def copy2(self, a, b, *x, **kw):
            return self.copy(a, b)

        def __getattr__(self, name):
            return getattr(shutil, name)

    database.sqlite3 = SqliteShim()
    database.tempfile = TempShim()
    database.os = OsShim()
    database.shutil = ShutilShim()


def run_child(fn, crash_at, log_path):
    """Run fn() in a forked child with process death at event `crash_at`
    (None: never).  Returns (status, events) where status is 'done',
    'crashed' or 'error:<text>'."""
    if os.path.exists(log_path):
        os.unlink(log_path)
    sys.stdout.flush()
    sys.stderr.flush()
    pid = os.fork()
    if pid == 0:
        code = 1
        try:
            import warnings
            warnings.simplefilter("ignore")
            ev = _Events(crash_at, log_path)
            _install(ev)
            fn()
            ev.log.write("DONE\n")
            ev.log.flush()
            code = 0
        except BaseException as e:
            try:
                with open(log_path, "a") as f:
                    f.write("ERROR %s: %s\n" % (type(e).__name__, str(e).replace("\n", " ")[:300]))
            except Exception:
                pass
            code = 3
        finally:
            os._exit(code)
    _, status = os.waitpid(pid, 0)
    code = os.WEXITSTATUS(status) if os.WIFEXITED(status) else -1
    events = []
    err = None
    if os.path.exists(log_path):
        for line in open(log_path):
            line = line.rstrip("\n")
            if line.startswith("ERROR "):
                err = line[6:]
            elif line != "DONE":
                events.append(line.split(" ", 1)[1] if " " in line else line)
    if code == 0:
        return "done", events
    if code == 42:
        return "crashed", events
    return "error:%s" % (err or code), events


def schema_of(path):
    """Normalised schema (type, name, table, sql without comments/whitespace)."""
    import re
    c = sqlite3.connect("file:%s?mode=ro" % path, uri=True)
    try:
        rows = c.execute("SELECT type, name, tbl_name, sql FROM sqlite_master").fetchall()
    finally:
        c.close()
    out = []
    for t, n, tb, sql in rows:
        if sql is not None:
            sql = re.sub(r"--[^\n]*", "", sql)
            sql = re.sub(r"\s+", " ", sql).strip().replace("`", "")
            sql = re.sub(r"\s*([(),])\s*", r"\1", sql)
        if n.startswith("sqlite_"):
            continue
        out.append((t, n, tb, sql))
    return sorted(out, key=repr)


def dump_rows(path, tables=None):
    c = sqlite3.connect("file:%s?mode=ro" % path, uri=True)
    try:
        names = [r[0] for r in c.execute("SELECT name FROM sqlite_master WHERE type='table' AND name NOT LIKE 'sqlite_%' ORDER BY name")]
        out = {}
        for n in names:
            if tables is not None and n not in tables:
                continue
            out[n] = c.execute("SELECT rowid, * FROM `%s` ORDER BY rowid" % n).fetchall()
        return out
    finally:
        c.close()
