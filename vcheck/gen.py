"""Generation: Hypothesis draws a list of *intents*; the Driver turns each
intent into concrete ops against the tracker's current knowledge (modulo late
binding - construction, never rejection), executes them on the primary world
at once and records the concrete script, which is what gets replayed, hashed,
sampled into evidence and written as the replay file."""
import json, hashlib

from hypothesis import strategies as st

from .script import Exec, Tracker, is_ref
from .known import check_known

APPS = ["A", "B", "app/é"]
SIDES = ["s1", "s2", "s3", "s4"]
NAMEPLATES = ["1", "2", "3", "9", "10", "42", "100", "007", "x-ray", "١"]
MAILBOXES = ["m1", "m2", "m3"]
MOODS = [None, "happy", "lonely", "scary", "errory", "weird"]
PHASES = ["pake", "version", "0", "1", ""]
BODIES = ["", "00", "deadbeef", "body"]
DTS = [0, 0.25, 1, 59.5, 60, 299, 300, 301, 359, 360, 361, 659, 660, 661, 900]

KINDS = ["flow_step", "flow_new", "conn", "claim", "open", "add", "close", "release", "alloc", "list",
         "drop", "reconn", "adv", "restart", "ping", "rawconn", "claim_open",
         "bad", "resend", "longadv", "faultadv", "fill", "faultadv2", "linger", "reinc", "reopen", "realloc"]


class Profile(object):
    """Weights and pools for one property's generator."""

    def __init__(self, name, weights, napps=2, nsides=3, nnames=4, nmail=2,
                 free_text=0.15, max_conns=8, dts=None, usage=None, forged=False,
                 moods=True, cross_app_mailbox=False, rephase=False, dup=False):
        self.name = name
        self.weights = weights
        self.napps = napps
        self.nsides = nsides
        self.nnames = nnames
        self.nmail = nmail
        self.free_text = free_text
        self.max_conns = max_conns
        self.dts = dts or DTS
        self.forged = forged
        self.moods = moods
        # R3 (known finding): the same literal mailbox id used in two apps
        # makes a handler raise IntegrityError.  When False, literal mailbox
        # ids are made app-specific by construction.
        self.cross_app_mailbox = cross_app_mailbox
        self.rephase = rephase      # C11: restarts are written as "rephase" (reference side)
        self.dup = dup              # C14: "resend" intents mark their duplicate command

    def kinds(self):
        out = []
        for k in KINDS:
            out += [k] * int(self.weights.get(k, 0))
        return out


BASE_W = dict(linger=1, reinc=1, reopen=1, flow_step=24, flow_new=4, conn=2, claim=3, open=3, add=4, close=3, release=2, alloc=1, list=1,
              drop=2, reconn=3, adv=3, restart=1, ping=0, rawconn=0, claim_open=1,
              bad=0, resend=0, longadv=0, faultadv=0, fill=0, faultadv2=0)


def W(**kw):
    d = dict(BASE_W)
    d.update(kw)
    return d


PROFILES = {
    "mixed": Profile("mixed", W()),
    "replay": Profile("replay", W(reopen=3, add=9, open=7, reconn=4, restart=2, longadv=1), napps=2, nmail=2),
    "fanout": Profile("fanout", W(linger=3, add=10, open=8, conn=8, claim=2, alloc=0, release=1, restart=3, adv=5), napps=1, nsides=3, nmail=2, nnames=2, forged=True),
    "claims": Profile("claims", W(claim=10, claim_open=2, release=5, close=4, add=1, open=2, restart=2, longadv=2, adv=6, reconn=5), napps=2, nnames=3),
    "crowd": Profile("crowd", W(reinc=3, claim=8, open=7, close=4, release=3, add=4, reconn=4, conn=8, alloc=0, longadv=2, adv=2), napps=1, nsides=4, nnames=1, nmail=1),
    "holders": Profile("holders", W(realloc=1, claim=9, release=7, list=4, close=3, alloc=3, open=2, add=1, restart=2), napps=1, nsides=2, nnames=3),
    "closers": Profile("closers", W(close=8, open=6, claim=5, claim_open=4, release=3, add=4, reconn=4, resend=3), napps=1, nsides=2, nnames=2, nmail=2),
    "clock": Profile("clock", W(adv=9, add=5, open=5, claim=4, drop=4, reconn=3, restart=1, alloc=1, faultadv2=1), napps=2, nnames=2, nmail=2),
    "hostile": Profile("hostile", W(bad=14, rawconn=2, ping=2, conn=6), napps=2),
    "hostile_crowd": Profile("hostile_crowd", W(bad=12, claim=8, release=4, conn=8, reconn=3, flow_step=12), napps=1, nsides=4, nnames=1, nmail=1),
    "usage": Profile("usage", W(close=7, release=5, adv=3, longadv=2, claim=6, claim_open=4), napps=2, nsides=4, nnames=2, nmail=2),
    "sweeper": Profile("sweeper", W(adv=5, longadv=3, faultadv=3, faultadv2=1, close=4, add=5, reconn=3, restart=1, resend=1), napps=3, nsides=3, nnames=2, nmail=2),
    "blurry": Profile("blurry", W(adv=4, longadv=2, close=6, release=5, claim=5, claim_open=3, conn=4), napps=2, nsides=3, nnames=2, nmail=2),
    "restarts": Profile("restarts", W(restart=4, adv=5, longadv=1, reconn=4), napps=2, nsides=3, nnames=2, nmail=2, rephase=True),
    "dups": Profile("dups", W(resend=8, adv=3, restart=1, close=4, release=3), napps=1, nsides=3, nnames=2, nmail=2, dup=True),
    "alloc": Profile("alloc", W(realloc=4, fill=10, alloc=14, release=8, claim=4, close=3, flow_step=8, flow_new=2, longadv=1, adv=2, conn=6, restart=3), napps=2, nsides=3, nnames=5, nmail=2),
    "shared": Profile("shared", W(open=8, add=8, close=5, claim=2, flow_step=10, reconn=4, restart=2, adv=2, longadv=1), napps=2, nsides=2, nnames=2, nmail=1, cross_app_mailbox=True),
    "options": Profile("options", W(alloc=6, list=6, release=6, close=5, claim=5, longadv=1, restart=3), napps=2, nsides=3, nnames=3, nmail=2),
    "twoapps": Profile("twoapps", W(close=5, release=4, adv=3, longadv=1, restart=1, faultadv=1, faultadv2=3), napps=2, nsides=2, nnames=2, nmail=2),
}


def intents_strategy(profile, max_ops):
    kinds = profile.kinds()
    small = st.integers(0, 11)
    # (long phases/bodies are *constructed* from these short texts in the add intent: drawing them
    # would overrun Hypothesis' 8 KB example buffer and silently shrink the number of valid examples)
    text = st.one_of(st.sampled_from(PHASES + BODIES), st.text(max_size=6))
    mask = st.integers(0, 2 ** 16 - 1)
    intent = st.tuples(st.sampled_from(kinds), small, small, small, mask, text, text)
    return st.lists(intent, min_size=max(1, max_ops // 2), max_size=max_ops)


# JSON values for extra keys / ping payloads (finite JSON, no NaN)
json_leaf = st.one_of(st.none(), st.booleans(), st.integers(-2**40, 2**40),
                      st.floats(allow_nan=False, allow_infinity=False, width=32),
                      st.text(max_size=5))
json_value = st.recursive(json_leaf, lambda ch: st.one_of(
    st.lists(ch, max_size=3), st.dictionaries(st.text(max_size=3), ch, max_size=3)),
    max_leaves=6)


def script_hash(script):
    return hashlib.sha1(json.dumps(script, sort_keys=True, ensure_ascii=True).encode()).hexdigest()[:16]


class Flow(object):
    """One two-party rendezvous in the order real clients use, advanced step
    by step so that flows interleave with each other and with random ops.  The
    16-bit mask removes up to two steps (e.g. the releases) and picks variants,
    so off-nominal orders are generated by construction."""
    STEPS = ["xconn", "xget", "xclaim2", "yconn", "yclaim", "xopen", "yopen",
             "xadd", "yadd", "xrel", "yrel", "xclose", "yclose", "xadd2"]

    def __init__(self, d, a, b, c, m):
        self.d = d
        p = d.p
        self.app = d.app_of(c)
        self.xside = d.side_of(a)
        self.yside = d.side_of(a + 1 + (b % max(1, p.nsides - 1))) if p.nsides > 1 else self.xside
        self.alloc = bool(m & 1)
        self.np_lit = NAMEPLATES[(b // 2) % p.nnames]
        self.reuse_hot = bool(m & 2)          # aim at the app's hot nameplate (third parties, re-incarnations)
        skip = set()
        for sh in (2, 6):
            k = (m >> sh) & 15
            if k < len(self.STEPS):
                skip.add(self.STEPS[k])
        self.skip = skip - {"xconn", "yconn"}
        self.swap = bool((m >> 10) & 1)       # y acts before x in each pair
        self.explicit = (m >> 11) & 3         # explicit names in release/close
        self.mood = MOODS[(m >> 13) % len(MOODS)]
        self.pc = 0
        self.x = self.y = None
        self.np = None
        self.order = list(self.STEPS)
        if self.swap:
            for i in (5, 9, 11):
                self.order[i], self.order[i + 1] = self.order[i + 1], self.order[i]

    def _conn(self, which):
        d = self.d
        cid = getattr(self, which)
        side = self.xside if which == "x" else self.yside
        cs = d.tr.conns.get(cid) if cid is not None else None
        if cs is not None and cs.alive and cs.bound:
            return cs
        was = cs
        ncid = d.new_conn(self.app, side)
        setattr(self, which, ncid)
        ncs = d.tr.conns.get(ncid)
        if ncs is None:
            return None
        if was is not None and was.open_sent and not was.close_done and not was.open_refused:
            d.do({"op": "send", "c": ncid, "msg": {"type": "open", "mailbox": was.open_id_raw}})
        return d.tr.conns.get(ncid)

    def step(self, t1, t2):
        d = self.d
        if self.pc >= len(self.order):
            return
        name = self.order[self.pc]
        self.pc += 1
        if name in self.skip:
            d.count("flow_skipped")
            return
        who = "x" if name[0] == "x" else "y"
        cs = self._conn(who)
        if cs is None or name in ("xconn", "yconn"):
            return
        cid = cs.cid
        if name == "xget":
            if self.reuse_hot and self.app in d.hot_np:
                self.np = d.hot_np[self.app]
                d.do({"op": "send", "c": cid, "msg": {"type": "claim", "nameplate": self.np}})
            elif self.alloc and not cs.did_allocate:
                st = d.do({"op": "send", "c": cid, "msg": {"type": "allocate"}, "rnd": [self.pc, 0]})
                cs = d.tr.conns[cid]
                if cs.alloc_idx is not None:
                    self.np = {"$np": cs.alloc_idx}
            else:
                self.np = self.np_lit
                d.do({"op": "send", "c": cid, "msg": {"type": "claim", "nameplate": self.np}})
        elif name == "xclaim2":
            if self.np is not None and not cs.claim_sent:
                d.do({"op": "send", "c": cid, "msg": {"type": "claim", "nameplate": self.np}})
        elif name == "yclaim":
            np = self.np if self.np is not None else self.np_lit
            if not cs.claim_sent:
                d.do({"op": "send", "c": cid, "msg": {"type": "claim", "nameplate": np}})
        elif name in ("xopen", "yopen"):
            if cs.holds:
                return
            if cs.claim_ok:
                mb = {"$mb": cs.claim_idx}
            elif self.app in d.hot_mb:
                mb = d.hot_mb[self.app]
            else:
                mb = d.mailbox_literal(self.app, 0)
            d.do({"op": "send", "c": cid, "msg": {"type": "open", "mailbox": mb}})
        elif name in ("xadd", "yadd", "xadd2"):
            if cs.holds:
                d.do({"op": "send", "c": cid, "msg": {"type": "add", "phase": t1, "body": t2}})
        elif name in ("xrel", "yrel"):
            if cs.release_done or not (cs.claim_sent or cs.did_allocate):
                return
            msg = {"type": "release"}
            if (self.explicit & 1) or not cs.claim_sent:
                msg["nameplate"] = cs.claim_np_raw if cs.claim_sent else {"$np": cs.alloc_idx}
            d.do({"op": "send", "c": cid, "msg": msg})
        elif name in ("xclose", "yclose"):
            if cs.close_done:
                return
            msg = {"type": "close"}
            if (self.explicit & 2) or not cs.open_sent:
                if cs.open_sent:
                    msg["mailbox"] = cs.open_id_raw
                elif cs.claim_ok:
                    msg["mailbox"] = {"$mb": cs.claim_idx}
                elif self.app in d.hot_mb:
                    msg["mailbox"] = d.hot_mb[self.app]
                else:
                    return
            if d.p.moods and self.mood is not None:
                msg["mood"] = self.mood
            d.do({"op": "send", "c": cid, "msg": msg})


class Driver(object):
    """Online interpreter of intents.  Holds the primary world's Exec and the
    tracker; `observers` are called after every executed op."""

    def __init__(self, world, profile, on_step=None, max_ops=10**9):
        self.w = world
        self.ex = Exec(world)
        self.tr = Tracker()
        self.p = profile
        self.script = []
        self.on_step = on_step
        self.max_ops = max_ops
        self.known_mb = {}     # app -> list of raw mailbox refs/literals seen
        self.known_np = {}     # app -> list of raw nameplate refs/literals seen
        self.counters = {}
        self.prev_mailboxes = set()
        self.app_index = {}
        self.flows = []
        self.hot_np = {}       # app -> most recently claimed/allocated nameplate (raw)
        self.hot_mb = {}       # app -> most recently opened/claimed mailbox (raw)
        self._seed_rows()

    def _seed_rows(self):
        snap = self.w.snapshot()
        self.prev_mailboxes = set((r[0], r[1]) for r in snap["mailboxes"])

    def count(self, k, n=1):
        self.counters[k] = self.counters.get(k, 0) + n

    # -- executing one concrete op
    def do(self, op, force=False):
        if (len(self.script) >= self.max_ops and not force) or self.w.crashed:
            return None
        j = len(self.script)
        self.script.append(op)
        before_tr = {cid: c.clone() for cid, c in self.tr.conns.items()} if self.on_step else None
        st = self.ex.run_op(op)
        if self.w.crashed:
            return st
        if self.p.cross_app_mailbox:
            check_known(st)
        self.tr.update(op, st, j)
        # subscription ends with the mailbox (observed through the reader)
        if st.after is not None:
            now_mb = set((r[0], r[1]) for r in st.after["mailboxes"])
            gone = set()
            prev = self.prev_mailboxes
            for tk in st.ticks:
                if tk.after is not None:
                    cur = set((r[0], r[1]) for r in tk.after["mailboxes"])
                    gone |= (prev - cur)
                    prev = cur
            gone |= (prev - now_mb)
            for app, mb in gone:
                self.tr.on_mailbox_deleted(app, mb)
            self.prev_mailboxes = now_mb
            st_gone = gone
        else:
            st_gone = set()
        if op["op"] == "send":
            self._learn(op, st, j)
        if self.on_step:
            self.on_step(j, op, st, before_tr, st_gone)
        return st

    def _learn(self, op, st, j):
        cs = self.tr.conns.get(op["c"])
        if cs is None or not cs.bound:
            return
        msg = op["msg"]
        if "dup_of" in op:
            return      # nothing may depend on a duplicate (it is absent from the reference history)
        if msg.get("type") == "claim" and "nameplate" in msg:
            self.hot_np[cs.app] = msg["nameplate"]
        if msg.get("type") == "open" and "mailbox" in msg:
            self.hot_mb[cs.app] = msg["mailbox"]
        for cid, fr in st.frames:
            if cid != op["c"]:
                continue
            if fr.get("type") == "claimed":
                self.known_mb.setdefault(cs.app, []).append({"$mb": j})
                self.hot_mb[cs.app] = {"$mb": j}
            elif fr.get("type") == "allocated":
                self.known_np.setdefault(cs.app, []).append({"$np": j})
                self.hot_np[cs.app] = {"$np": j}

    # -- helpers
    def pick_conn(self, i, pred=None):
        live = self.tr.live()
        if pred is not None:
            good = [c for c in live if pred(c)]
            if good:
                return good[i % len(good)]
            self.count("degraded")
        if not live:
            return None
        return live[i % len(live)]

    def new_conn(self, app, side, cv=None, bind=True):
        live = self.tr.live()
        if len(live) >= self.p.max_conns:
            victim = live[0]
            self.do({"op": "drop", "c": victim.cid})
        cid = self.tr.next_cid
        self.do({"op": "connect", "c": cid})
        if bind:
            msg = {"type": "bind", "appid": app, "side": side}
            if cv is not None:
                msg["client_version"] = cv
            self.do({"op": "send", "c": cid, "msg": msg})
        return cid

    def app_of(self, i):
        return APPS[i % self.p.napps]

    def side_of(self, i):
        if i == 11 and self.p.name == "hostile":
            return ""
        return SIDES[i % self.p.nsides]

    def mailbox_literal(self, app, i):
        if i == 5 and app == APPS[0]:
            return ""           # empty mailbox id, in one app only (R3)
        m = MAILBOXES[i % self.p.nmail]
        if self.p.cross_app_mailbox:
            return m
        return "%s-%d" % (m, self.app_index.setdefault(app, len(self.app_index)))

    def np_choice(self, cs, b):
        pool = NAMEPLATES[:self.p.nnames]
        if b == 11:
            return ""           # the empty string is a valid identifier too
        if b % 2 == 0 and cs.app in self.hot_np:
            return self.hot_np[cs.app]
        known = self.known_np.get(cs.app, [])
        if known and b % 6 == 1:
            return known[(b // 6) % len(known)]
        return pool[(b // 2) % len(pool)]

    def mb_choice(self, cs, b):
        if cs.claim_ok and b % 4 != 3:
            return {"$mb": cs.claim_idx}
        if b % 2 == 0 and cs.app in self.hot_mb:
            return self.hot_mb[cs.app]
        known = self.known_mb.get(cs.app, [])
        if known and b % 4 == 1:
            return known[(b // 4) % len(known)]
        return self.mailbox_literal(cs.app, b // 2)

    def text(self, t, pool):
        return t

    # -- one intent
    def step(self, intent):
        kind, a, b, c, m, t1, t2 = intent
        p = self.p
        if kind == "flow_new" or (kind == "flow_step" and not self.flows):
            if len(self.flows) >= 4:
                self.flows.pop(0)
            self.flows.append(Flow(self, a, b, c, m))
            self.count("flows")
            if kind == "flow_new":
                return
        if kind == "flow_step":
            f = self.flows[a % len(self.flows)]
            for _ in range(1 + c % 3):
                f.step(t1, t2)
            return
        if kind == "conn":
            cv = None
            if c % 4 == 1:
                cv = ["python", "0.%d" % c]
            elif c % 4 == 2:
                cv = ["impl", None, "junk"]
            self.new_conn(self.app_of(a), self.side_of(b), cv)
            return
        if kind == "rawconn":
            self.new_conn(None, None, bind=False)
            return
        if kind == "adv":
            dt = p.dts[a % len(p.dts)] if b % 3 else float(a * 97 + b * 7 + c) + (0.5 if c % 2 else 0.0)
            self.do({"op": "advance", "dt": dt})
            return
        if kind == "longadv":
            self.do({"op": "advance", "dt": 660.0 + 300.0 * (a % 3) + b})
            return
        if kind == "fill":
            self.fill(a, b, c, m)
            return
        if kind == "realloc":
            # a nameplate is retired by its last release, (optionally) the server restarts, every other
            # 1-digit name gets taken: the retired one must be handed out again
            app = self.app_of(c)
            c1 = self.new_conn(app, self.side_of(a))
            st = self.do({"op": "send", "c": c1, "msg": {"type": "allocate"}, "rnd": [b, 0]})
            cs1 = self.tr.conns.get(c1)
            if cs1 is None or cs1.alloc_idx is None or not (cs1.alloc_np or "").isdigit() or len(cs1.alloc_np) != 1:
                return
            name = cs1.alloc_np
            self.do({"op": "send", "c": c1, "msg": {"type": "release", "nameplate": {"$np": cs1.alloc_idx}}})
            if m & 1:
                self.do({"op": "restart"})
            others = ["%d" % i for i in range(1, 10) if "%d" % i != name]
            self.do({"op": "fill", "app": app, "names": others, "side": "filler"})
            c2 = self.new_conn(app, self.side_of(a + 1))
            self.do({"op": "send", "c": c2, "msg": {"type": "allocate"}, "rnd": [c, 0]})
            return
        if kind == "reopen":
            # A and B share a mailbox with stored messages; A closes (B keeps it alive); A comes back and
            # re-opens (or re-sends its close); later opens must still replay everything
            app = self.app_of(c)
            sa, sb = self.side_of(a), self.side_of(a + 1)
            mb = self.mailbox_literal(app, b)
            ca = self.new_conn(app, sa)
            self.do({"op": "send", "c": ca, "msg": {"type": "open", "mailbox": mb}})
            self.do({"op": "send", "c": ca, "msg": {"type": "add", "phase": t1, "body": t2}})
            self.do({"op": "advance", "dt": [0.25, 10.0, 60.0][m % 3]})
            cb = self.new_conn(app, sb)
            self.do({"op": "send", "c": cb, "msg": {"type": "open", "mailbox": mb}})
            self.do({"op": "advance", "dt": [0.25, 10.0][(m >> 2) % 2]})
            self.do({"op": "send", "c": ca, "msg": {"type": "close"}})
            self.do({"op": "advance", "dt": [0.25, 20.0][(m >> 3) % 2]})
            ca2 = self.new_conn(app, sa)
            if m & 16:
                self.do({"op": "send", "c": ca2, "msg": {"type": "close", "mailbox": mb}})
            else:
                self.do({"op": "send", "c": ca2, "msg": {"type": "open", "mailbox": mb}})
            self.do({"op": "drop", "c": cb})
            cb2 = self.new_conn(app, sb)
            self.do({"op": "send", "c": cb2, "msg": {"type": "open", "mailbox": mb}})
            return
        if kind == "reinc":
            # a side of an expired incarnation comes back to the same id, then two more sides arrive
            app = self.app_of(c)
            sides = [self.side_of(a + i) for i in range(3)]
            via_np = bool(m & 1)
            target = NAMEPLATES[b % p.nnames] if via_np else self.mailbox_literal(app, b)
            def touch(side, j0=[None]):
                cid = self.new_conn(app, side)
                if via_np:
                    self.do({"op": "send", "c": cid, "msg": {"type": "claim", "nameplate": target}})
                    cs_ = self.tr.conns.get(cid)
                    if cs_ is not None and cs_.claim_ok and (m & 2):
                        self.do({"op": "send", "c": cid, "msg": {"type": "open", "mailbox": {"$mb": cs_.claim_idx}}})
                else:
                    self.do({"op": "send", "c": cid, "msg": {"type": "open", "mailbox": target}})
                return cid
            c0 = touch(sides[0])
            if m & 4 and self.tr.conns.get(c0) is not None and self.tr.conns[c0].holds:
                self.do({"op": "send", "c": c0, "msg": {"type": "add", "phase": t1, "body": t2}})
            self.do({"op": "drop", "c": c0})
            self.do({"op": "advance", "dt": 961.0 + (m >> 3) % 300})
            for sd in sides if not (m & 64) else [sides[0], sides[1], sides[0], sides[2]]:
                touch(sd)
            return
        if kind == "linger":
            # one side on two connections, both subscribed; the mailbox is closed (deleted) through
            # one of them while the other lingers; then the same id is opened again and used
            app = self.app_of(c)
            side = self.side_of(a)
            mb = self.mailbox_literal(app, b)
            c1 = self.new_conn(app, side)
            self.do({"op": "send", "c": c1, "msg": {"type": "open", "mailbox": mb}})
            c2 = self.new_conn(app, side)
            self.do({"op": "send", "c": c2, "msg": {"type": "open", "mailbox": mb}})
            self.do({"op": "send", "c": c2, "msg": {"type": "add", "phase": t1, "body": t2}})
            self.do({"op": "send", "c": c2, "msg": {"type": "close"}})
            c3 = self.new_conn(app, self.side_of(a + 1))
            self.do({"op": "send", "c": c3, "msg": {"type": "open", "mailbox": mb}})
            self.do({"op": "send", "c": c3, "msg": {"type": "add", "phase": t2, "body": t1}})
            if self.tr.conns.get(c1) is not None and self.tr.conns[c1].alive:
                self.do({"op": "send", "c": c1, "msg": {"type": "add", "phase": "late", "body": t1}})
            return
        if kind == "faultadv2":
            # three consecutive sweeps fail at their first database access
            self.do({"op": "advance", "dt": 900.0 + b, "fault": [0, 1, 2]})
            return
        if kind == "faultadv":
            # the first database access of the next sweep fails transiently
            self.do({"op": "advance", "dt": 300.0 + (a % 2) * 300.0 + b, "fault": [0]})
            return
        if kind == "restart":
            if p.rephase and (not self.w.snapshot()["messages"] or not self.w.snapshot()["nameplates"]) and a % 4:
                # C11: most restart points should come while there is state to lose
                kind = "flow_step"
                if not self.flows:
                    self.flows.append(Flow(self, a, b, c, m))
                f = self.flows[a % len(self.flows)]
                for _ in range(1 + c % 3):
                    f.step(t1, t2)
                return
            self.do({"op": "rephase" if p.rephase else "restart"})
            if p.name in ("fanout", "clock", "usage", "mixed", "replay") and b % 2:
                # clients that bind right after a restart, sit through a sweep and only then open
                app = self.app_of(a)
                c1 = self.new_conn(app, self.side_of(c))
                c2 = self.new_conn(app, self.side_of(c + 1)) if c % 3 else None
                self.do({"op": "advance", "dt": [301.0, 600.5, 300.0][c % 3]})
                mb = self.hot_mb.get(app, self.mailbox_literal(app, c))
                for cc in (c1, c2):
                    if cc is not None and self.tr.conns.get(cc) is not None and self.tr.conns[cc].alive:
                        self.do({"op": "send", "c": cc, "msg": {"type": "open", "mailbox": mb}})
                last = c2 if c2 is not None else c1
                if self.tr.conns.get(last) is not None and self.tr.conns[last].holds:
                    self.do({"op": "send", "c": last, "msg": {"type": "add", "phase": t1, "body": t2}})
                return
            if p.weights.get("list", 0) >= 4 and b % 2:
                # the first thing a client asks a freshly started server
                ncid = self.new_conn(self.app_of(a), self.side_of(c))
                self.do({"op": "send", "c": ncid, "msg": {"type": "list"}})
            if p.rephase and b % 3:
                # sweeps before / between the reconnects
                if c % 2:
                    self.new_conn(self.app_of(a), self.side_of(b))
                self.do({"op": "advance", "dt": [301.0, 330.5, 600.0, 299.0][b % 4]})
            return
        cs = None
        if kind in ("claim", "alloc", "list", "claim_open"):
            cs = self.pick_conn(a, lambda x: x.bound and not x.claim_sent) if kind in ("claim", "claim_open") else \
                 self.pick_conn(a, lambda x: x.bound and not x.did_allocate) if kind == "alloc" else \
                 self.pick_conn(a, lambda x: x.bound)
        elif kind == "release":
            cs = self.pick_conn(a, lambda x: x.bound and (x.claim_sent or x.did_allocate) and not x.release_done)
        elif kind == "open":
            cs = self.pick_conn(a, lambda x: x.bound and not x.holds and not x.open_sent)
        elif kind == "add":
            cs = self.pick_conn(a, lambda x: x.holds)
        elif kind == "close":
            cs = self.pick_conn(a, lambda x: x.bound and not x.close_done)
        elif kind == "bad" and b % 16 == 3 and c % 5 == 2:
            cs = self.pick_conn(a, lambda x: x.claim_refused)
        elif kind in ("drop", "reconn", "ping", "bad", "resend"):
            cs = self.pick_conn(a)
        if cs is None:
            self.new_conn(self.app_of(a), self.side_of(b))
            return
        cid = cs.cid
        if kind == "list":
            self.do({"op": "send", "c": cid, "msg": {"type": "list"}})
        elif kind == "alloc":
            self.do({"op": "send", "c": cid, "msg": {"type": "allocate"}, "rnd": [b, c * 37 + a]})
        elif kind == "claim":
            np = self.np_choice(cs, b)
            self.do({"op": "send", "c": cid, "msg": {"type": "claim", "nameplate": np}})
        elif kind == "claim_open":
            np = self.np_choice(cs, b)
            self.do({"op": "send", "c": cid, "msg": {"type": "claim", "nameplate": np}})
            cs = self.tr.conns[cid]
            if cs.claim_ok and not cs.holds:
                self.do({"op": "send", "c": cid, "msg": {"type": "open", "mailbox": {"$mb": cs.claim_idx}}})
        elif kind == "release":
            v = b % 4
            msg = {"type": "release"}
            if v == 2:
                if cs.claim_sent:
                    msg["nameplate"] = cs.claim_np_raw
                elif cs.alloc_idx is not None:
                    msg["nameplate"] = {"$np": cs.alloc_idx}
            elif v == 3:
                msg["nameplate"] = self.np_choice(cs, c)
            self.do({"op": "send", "c": cid, "msg": msg})
        elif kind == "open":
            self.do({"op": "send", "c": cid, "msg": {"type": "open", "mailbox": self.mb_choice(cs, b)}})
        elif kind == "add":
            msg = {"type": "add", "phase": t1, "body": t2}
            if c == 10:
                msg["body"] = (t2 or "x") * 400          # now and then a long body: delivered and stored unmodified
            elif c == 11:
                msg["phase"] = (t1 or "p") * 300
            if c % 3 == 0:
                msg["id"] = "id%d" % b
            if p.forged and c % 4 == 1:
                msg["side"] = SIDES[(b + 1) % len(SIDES)]
            self.do({"op": "send", "c": cid, "msg": msg})
        elif kind == "close":
            v = b % 5
            msg = {"type": "close"}
            if v in (2, 3):
                if cs.open_sent:
                    msg["mailbox"] = cs.open_id_raw
                elif cs.claim_ok:
                    msg["mailbox"] = {"$mb": cs.claim_idx}
                else:
                    msg["mailbox"] = self.mb_choice(cs, c)
            elif v == 4:
                msg["mailbox"] = self.mb_choice(cs, c)
            elif not cs.open_sent:
                # implicit close would be refused: name a mailbox instead
                msg["mailbox"] = self.mb_choice(cs, c)
            if p.moods:
                mood = MOODS[c % len(MOODS)]
                if mood is not None:
                    msg["mood"] = mood
            self.do({"op": "send", "c": cid, "msg": msg})
        elif kind == "ping":
            self.do({"op": "send", "c": cid, "msg": {"type": "ping", "ping": b}})
        elif kind == "drop":
            self.do({"op": "drop", "c": cid})
        elif kind == "reconn":
            app, side, bound = cs.app, cs.side, cs.bound
            was = cs
            self.do({"op": "drop", "c": cid})
            if bound:
                ncid = self.new_conn(app, side)
                # an intermittently connected client re-subscribes
                if c % 2 == 0 and was.open_sent and not was.close_done and not was.open_refused:
                    self.do({"op": "send", "c": ncid, "msg": {"type": "open", "mailbox": was.open_id_raw}})
        elif kind == "resend" and p.dup:
            self.dup_command(cs, b, c)
        elif kind == "resend":
            # re-send the last acknowledged command on a fresh connection of the same side
            if cs.bound and cs.last_ok_cmd is not None:
                j0, raw = cs.last_ok_cmd
                msg = dict(raw)
                if msg["type"] == "release" and "nameplate" not in msg:
                    msg["nameplate"] = cs.claim_np_raw
                if msg["type"] == "close" and "mailbox" not in msg:
                    msg["mailbox"] = cs.open_id_raw
                ncid = self.new_conn(cs.app, cs.side)
                self.do({"op": "send", "c": ncid, "msg": msg})
            else:
                self.do({"op": "send", "c": cid, "msg": {"type": "ping", "ping": 0}})
        elif kind == "bad":
            self.bad(cs, a, b, c, t1, t2)

    LOOKALIKES = ["007", "\u0661", " 1", "1 ", "01", "x-ray", "1.0", "+1", "\uff11", "0"]

    def fill(self, a, b, c, m):
        """C04: build an in-use set through ordinary claims (compressed)."""
        app = self.app_of(c)
        v = a % 8
        holes = set()
        if v in (0, 1):
            names = ["%d" % i for i in range(1, 10) if (m >> i) & 1]          # random subset of 1-9
        elif v == 2:
            holes = {1 + b % 9} if c % 2 else {1 + b % 9, 1 + (b + 1 + c) % 9}
            names = ["%d" % i for i in range(1, 10) if i not in holes]
        elif v in (3, 4):
            holes = {10 + (m % 90)} | ({10 + ((m >> 7) % 90)} if c % 2 else set())
            if b % 4 == 0:
                holes = set()
            names = ["%d" % i for i in range(1, 100) if i not in holes]
        elif v == 5 and not self.did_big_fill:
            self.did_big_fill = True
            holes = {100 + (m % 900)} if b % 3 else set()
            if b % 3 == 2:
                holes |= {1 + c % 9}
            names = ["%d" % i for i in range(1, 1000) if i not in holes]
        elif v == 6:
            # a whole tier taken except one hole, plus non-canonical spellings of the hole
            h = 1 + b % 9
            names = ["%d" % i for i in range(1, 10) if i != h] + ["0%d" % h, "00%d" % h, " %d" % h, "%d " % h, "+%d" % h][: 1 + c % 5]
        else:
            names = [self.LOOKALIKES[(b + i) % len(self.LOOKALIKES)] for i in range(1 + c % 4)]
        if names:
            self.do({"op": "fill", "app": app, "names": names, "side": "filler"})
            self.count("fills")

    did_big_fill = False

    def dup_command(self, cs, b, c):
        """C14: issue a claim/release/open/close that is valid in this
        connection's state and, if it was answered successfully, re-send it at
        once (explicit ids) on a fresh connection of the same side."""
        if not cs.bound:
            self.new_conn(self.app_of(b), self.side_of(c))
            return
        cid = cs.cid
        opts = []
        if not cs.claim_sent:
            opts.append({"type": "claim", "nameplate": self.np_choice(cs, c)})
        if (cs.claim_sent or cs.alloc_idx is not None) and not cs.release_done:
            opts.append({"type": "release", "nameplate": cs.claim_np_raw if cs.claim_sent else {"$np": cs.alloc_idx}})
        if not cs.holds and not cs.open_sent:
            opts.append({"type": "open", "mailbox": self.mb_choice(cs, c)})
        if not cs.close_done and (cs.open_sent or cs.claim_ok):
            m = {"type": "close", "mailbox": cs.open_id_raw if cs.open_sent else {"$mb": cs.claim_idx}}
            mood = MOODS[c % len(MOODS)]
            if mood:
                m["mood"] = mood
            opts.append(m)
        if not opts:
            self.do({"op": "send", "c": cid, "msg": {"type": "ping", "ping": 0}})
            return
        msg = opts[b % len(opts)]
        j = len(self.script)
        st = self.do({"op": "send", "c": cid, "msg": msg})
        if st is None:
            return
        types = [f.get("type") for (x, f) in st.frames if x == cid]
        if "error" in types:
            return
        ncid = self.tr.next_cid
        self.do({"op": "connect", "c": ncid}, force=True)
        self.do({"op": "send", "c": ncid, "msg": {"type": "bind", "appid": cs.app, "side": cs.side}}, force=True)
        self.do({"op": "send", "c": ncid, "msg": dict(msg), "dup_of": j}, force=True)
        self.do({"op": "drop", "c": ncid}, force=True)
        self.count("dups")

    def junk(self, a, b, c, t1, t2):
        """A small family of arbitrary finite JSON values built from the intent."""
        fam = [None, True, False, b, -a * 1000003, 1.5, t1, [t1, b], {"k": t2}, [], {},
               [[None, {"z": [c]}]], 2 ** 40 + c, ""]
        return fam[(a * 7 + b * 3 + c) % len(fam)]

    def bad(self, cs, a, b, c, t1, t2):
        """Malformed / out-of-order / decorated commands (C17's grammar): only
        well-formed JSON objects whose protocol identifiers are strings."""
        cid = cs.cid
        v = b % 16
        msg = None
        if v == 0:
            msg = {"foo": self.junk(a, b, c, t1, t2)}
            if c % 2:
                msg["id"] = "i%d" % c
        elif v == 1:
            ty = t1 if t1 not in ("ping", "bind", "list", "allocate", "claim", "release", "open", "add", "close") else "nope"
            msg = {"type": ty, "id": "u%d" % c}
        elif v == 2:
            which = c % 7
            msg = [{"type": "bind", "side": "s1"}, {"type": "bind", "appid": "A"},
                   {"type": "claim"}, {"type": "open"}, {"type": "add", "body": t2},
                   {"type": "add", "phase": t1}, {"type": "ping"}][which]
        elif v == 3:
            # repeat a once-only command
            which = c % 5
            if which == 0:
                msg = {"type": "bind", "appid": self.app_of(a), "side": self.side_of(c)}
            elif which == 1:
                msg = {"type": "allocate"}
            elif which == 2:
                msg = {"type": "claim", "nameplate": self.np_choice(cs, a) if cs.bound else "1"}
            elif which == 3:
                msg = {"type": "release"}
            else:
                msg = {"type": "close"}
        elif v == 4:
            msg = {"type": "open", "mailbox": self.mb_choice(cs, c) if cs.bound else "m1"}
        elif v == 5:
            msg = {"type": "release", "nameplate": NAMEPLATES[c % len(NAMEPLATES)]}
        elif v == 6:
            msg = {"type": "close", "mailbox": self.mailbox_literal(cs.app, c) if cs.bound else "m1"}
        elif v == 7:
            msg = {"type": "add", "phase": t1, "body": t2}
        elif v == 8:
            # before bind, on a fresh unbound connection
            ncid = self.new_conn(None, None, bind=False)
            ty = ["list", "allocate", "claim", "release", "open", "add", "close", t1][c % 8]
            msg = {"type": ty, "nameplate": "1", "mailbox": "m1", "phase": "p", "body": "b"}
            self.do({"op": "send", "c": ncid, "msg": msg})
            return
        elif v == 9:
            msg = {"type": "ping", "ping": self.junk(a, b, c, t1, t2)}
        elif v in (10, 11, 12):
            # a valid command for this state, decorated with extra keys / ids
            base = self.valid_for(cs, a, c, t1, t2)
            base["x-extra"] = self.junk(a, b, c, t1, t2)
            if c % 2:
                base["id"] = t2
            if c % 3 == 0:
                base["server_tx"] = self.junk(c, a, b, t2, t1)
            msg = base
        elif v == 13:
            # unicode identifiers
            ncid = self.new_conn(t1, t2)
            if c % 2:
                self.do({"op": "send", "c": ncid, "msg": {"type": "claim", "nameplate": t1}})
                self.do({"op": "send", "c": ncid, "msg": {"type": "release"}})
            else:
                # id unique per (app, t2): never shared between two apps (R3)
                self.do({"op": "send", "c": ncid, "msg": {"type": "open", "mailbox": "u-%d-%s-%s" % (len(t1), t1, t2)}})
                self.do({"op": "send", "c": ncid, "msg": {"type": "add", "phase": t2, "body": t1, "id": t1}})
                self.do({"op": "send", "c": ncid, "msg": {"type": "close", "mood": t2}})
            return
        elif v == 14:
            msg = {"type": "close", "mood": t1}
            if not cs.open_sent and cs.bound:
                msg["mailbox"] = self.mb_choice(cs, c)
        else:
            msg = {"type": "release", "nameplate": cs.claim_np_raw} if cs.claim_sent else {"type": "list", "id": t1}
        self.do({"op": "send", "c": cid, "msg": msg})

    def valid_for(self, cs, a, c, t1, t2):
        if not cs.bound:
            return {"type": "bind", "appid": self.app_of(a), "side": self.side_of(c)}
        if cs.holds:
            return {"type": "add", "phase": t1, "body": t2}
        if not cs.claim_sent:
            return {"type": "claim", "nameplate": self.np_choice(cs, c)}
        if not cs.open_sent:
            return {"type": "open", "mailbox": self.mb_choice(cs, c)}
        if not cs.release_done:
            return {"type": "release"}
        if not cs.close_done:
            return {"type": "close", "mood": t1}
        return {"type": "list"}

    def run(self, intents):
        for it in intents:
            if len(self.script) >= self.max_ops or self.w.crashed:
                break
            self.step(it)
        return self.script
