"""Run-time recognition of recorded known findings (see known_findings.json).

R3: opening/closing a mailbox id that currently exists in another app fails
with IntegrityError 'UNIQUE constraint failed: mailboxes.id' raised from
_add_mailbox.  In profiles that allow the same literal mailbox id in two apps
(cross_app_mailbox=True) exactly that failure ends the history without a
verdict (counted as known_R3_hit); any *other* misbehaviour in the same
situation - e.g. another app's messages being replayed - is still judged."""

R3_TEXT = "UNIQUE constraint failed: mailboxes.id"


class KnownFindingHit(Exception):
    def __init__(self, fid):
        Exception.__init__(self, fid)
        self.fid = fid


def check_known(step):
    for e in getattr(step, "errors", ()) or ():
        if R3_TEXT in e and "IntegrityError" in e:
            raise KnownFindingHit("R3")
