"""Reference model of the rendezvous semantics, written from the property
statements and docs/server-protocol.md (never from the implementation).

It is driven as an Observer: after every executed op it compares what the
statements determine (frames, existence of nameplates/mailboxes/messages,
usage records) with what the real server did.  Every comparison carries an
*aspect*; an aspect is owned by the properties whose statement makes that
demand.  A check for property P turns mismatches of aspects owned by P into
violations; on a mismatch of a foreign aspect the rest of that history is
abandoned (counted), never reported.  Where the statements leave freedom
(objects a refused third side has touched, the ambiguous expiry window) the
model adopts the observed state instead of predicting it."""
import re

from .props.common import Observer
from .runner import Violation
from .script import classify, MUST_ERROR, OK, EITHER
from .world import server_tap

EPS = 1e-3

ASPECT_OWNERS = {
    "replay": {"C01"},
    "replay-leak": {"C01", "C02"},
    "msg-rows": {"C01", "C08", "C13"},
    "fanout": {"C02"},
    "stray-frame": {"C02"},
    "claimed-id": {"C03"},
    "np-dup": {"C03", "C10"},
    "alloc": {"C04"},
    "crowd": {"C05"},
    "np-life": {"C07"},
    "claim-refused": {"C07", "C03"},
    "list": {"C18", "C07"},
    "mb-life": {"C08"},
    "orphan-rows": {"C08", "C13", "C10"},
    "expiry-safety": {"C12"},
    "expiry-collateral": {"C12"},
    "expiry-lost-messages": {"C12", "C01"},
    "expiry-liveness": {"C13"},
    "sweep-error": {"C13", "C10"},
    "timer": {"C13"},
    "usage": {"C15"},
    "current": {"C15"},
    "blur": {"C16"},
}


# aspects whose mismatch cannot corrupt the model's channel state: a check
# that does not own them counts the mismatch and carries on
SOFT = {"usage", "current", "blur", "list", "timer"}
# mismatches of frames that carry no state (deliveries, replays)
ANSWER_ONLY = {"fanout", "replay", "replay-leak", "stray-frame"}
# mismatches of the *stored state* (not of an answer)
STATE_ASPECTS = {"expiry-lost-messages", "np-life", "mb-life", "msg-rows", "orphan-rows", "expiry-safety", "expiry-liveness", "expiry-collateral", "np-dup"}


class Mismatch(Exception):
    def __init__(self, aspect, msg):
        Exception.__init__(self, msg)
        self.aspect = aspect
        self.msg = msg


class MSide(object):
    __slots__ = ("side", "flag", "added", "mood")

    def __init__(self, side, added):
        self.side = side
        self.flag = True      # claimed / opened
        self.added = added
        self.mood = None


class MMailbox(object):
    def __init__(self, app, mid, for_np, t):
        self.app = app
        self.id = mid
        self.for_np = for_np
        self.sides = {}        # side -> MSide, arrival order
        self.msgs = []         # (side, phase, body, msg_id)
        self.subs = set()      # cids
        self.last_act = t      # lower bound of "last activity"
        self.last_touch = t    # upper bound
        self.crowd = False
        self.refused = set()
        self.told = set()      # sides that were subscribed or sent one of its messages
        self.ever_subscribed_after_sweep = False


class MNameplate(object):
    def __init__(self, app, name, mailbox, t):
        self.app = app
        self.name = name
        self.mailbox = mailbox
        self.sides = {}
        self.crowd = False
        self.refused = set()
        self.told = set()      # sides that got `claimed`


def fkey(x):
    return repr(x)


class ModelObserver(Observer):
    def __init__(self, world, cfg, owner, extra_owned=()):
        Observer.__init__(self, world, cfg)
        self.owner = owner
        self.owned = set(a for a, o in ASPECT_OWNERS.items() if owner in o) | set(extra_owned)
        self.E = float(server_tap.CHANNEL_EXPIRATION_TIME)
        self.P = float(server_tap.EXPIRATION_CHECK_PERIOD)
        if not (self.E > self.P > 0):
            raise Violation("CHANNEL_EXPIRATION_TIME (%r) must exceed EXPIRATION_CHECK_PERIOD (%r) > 0" % (self.E, self.P))
        self.mb = {}
        self.np = {}
        self.ids_ever = {}
        self.sub_of = {}        # cid -> (app, id)
        self.abandoned = False
        self.desynced = None
        self.usage = bool(cfg.get("usage"))
        self.blur = cfg.get("blur") if self.usage or True else None
        self.allow_list = cfg.get("allow_list", True)
        self.pending_usage = []     # predicted records of the current step
        self.rebooted = world.start_tick.t
        self.nticks = 0
        self.last_tick_t = None
        # evidence / non-triviality counters
        self.ev = {}
        self.np_gone_with_mailbox = set()
        self.process_tick(world.start_tick, start=True)

    # ---------------------------------------------------------------- util
    def mm(self, aspect, msg):
        if aspect in ANSWER_ONLY and aspect not in self.owned:
            # a wrong delivery/replay does not touch the model's state: a check
            # that does not own the aspect counts it and carries on
            self.count("foreign_ignored_" + aspect)
            return
        raise Mismatch(aspect, msg)

    def soft(self, fn, *a):
        try:
            fn(*a)
        except Mismatch as m:
            if m.aspect in self.owned or m.aspect not in SOFT:
                raise
            self.count("foreign_soft_" + m.aspect)

    def note(self, k, n=1):
        self.ev[k] = self.ev.get(k, 0) + n
        self.count(k, n)

    def blurred(self, t):
        if self.blur:
            return self.blur * (t // self.blur)
        return t

    def subs_total(self):
        return len(self.sub_of)

    def unsubscribe(self, cid):
        key = self.sub_of.pop(cid, None)
        if key is not None and key in self.mb:
            self.mb[key].subs.discard(cid)

    def live_names(self, app):
        return set(n for (a, n) in self.np if a == app)

    # ------------------------------------------------------------- retire
    def predict_np_record(self, np, t, pruned):
        times = sorted(s.added for s in np.sides.values())
        if not times:
            return None
        n = len(times)
        result = "lonely"
        if n == 2:
            result = "happy"
        if pruned:
            result = "pruney"
        if n > 2:
            result = "crowded"
        return ("nameplates", np.app, None, self.blurred(times[0]), times[0],
                (times[1] - times[0]) if n > 1 else None, t - times[0], result)

    def predict_mb_record(self, mb, t, pruned):
        times = sorted(s.added for s in mb.sides.values())
        if not times:
            return None
        n = len(times)
        result = "happy" if n >= 2 else "lonely"
        moods = [s.mood for s in mb.sides.values() if s.mood]
        if "lonely" in moods:
            result = "lonely"
        if "errory" in moods:
            result = "errory"
        if "scary" in moods:
            result = "scary"
        if pruned:
            result = "pruney"
        if n > 2:
            result = "crowded"
        return ("mailboxes", mb.app, bool(mb.for_np), self.blurred(times[0]), times[0],
                (times[1] - times[0]) if n > 1 else None, t - times[0], result)

    def retire_np(self, key, t, pruned, optional=False, path=""):
        np = self.np.pop(key)
        rec = self.predict_np_record(np, t, pruned)
        if rec is not None:
            self.pending_usage.append((rec, optional, path))
        self.note("retired_np_" + path)

    def retire_mb(self, key, t, pruned, optional=False, path=""):
        mb = self.mb.pop(key)
        for cid in list(mb.subs):
            self.sub_of.pop(cid, None)
        rec = self.predict_mb_record(mb, t, pruned)
        if rec is not None:
            self.pending_usage.append((rec, optional, path))
        # the nameplate pointing at it goes with it
        for nk, np in list(self.np.items()):
            if np.app == mb.app and np.mailbox == mb.id:
                self.retire_np(nk, t, pruned, optional, path="with-mailbox-" + path)
                self.np_gone_with_mailbox.add(nk)
        self.note("retired_mb_" + path)

    # --------------------------------------------------------------- steps
    def on_step(self, j, op, st, tr_before, gone):
        if self.abandoned:
            return
        try:
            self._on_step(j, op, st, tr_before, gone)
        except Mismatch as m:
            if m.aspect in self.owned:
                raise Violation("op#%d %s (%s): %s%s" % (j, _short(op), m.aspect, m.msg,
                                                       " [after an earlier mismatch of a foreign aspect: %s]" % self.desynced if self.desynced else ""))
            if m.aspect in STATE_ASPECTS and "model inconsistency" not in m.msg:
                # the stored state left the specification in an aspect another
                # property owns: keep the specification's state (no adoption),
                # stop comparing stored state, keep judging answers
                if not self.desynced:
                    self.count("desynced_foreign_" + m.aspect)
                self.desynced = self.desynced or m.aspect
                return
            self.abandoned = True
            self.count("abandoned_foreign_" + m.aspect)
        except (KeyError, AttributeError, IndexError, TypeError):
            if self.desynced:
                self.abandoned = True
                self.count("abandoned_after_desync")
            else:
                raise

    def _on_step(self, j, op, st, tr_before, gone):
        kind = op["op"]
        self.pending_usage = []
        self.np_gone_with_mailbox = set()
        if kind == "connect":
            pass
        elif kind == "drop":
            self.unsubscribe(op["c"])
        elif kind == "send":
            self.h_send(j, op, st, tr_before)
        elif kind == "advance":
            for tk in st.ticks:
                self.process_tick(tk)
            end = st.t + float(op["dt"])
            if self.last_tick_t is not None and end - self.last_tick_t >= self.P + EPS and not self.w.crashed:
                self.mm("timer", "no expiry sweep between %r and %r although the period is %r" % (self.last_tick_t, end, self.P))
        elif kind in ("restart", "rephase"):
            for cid in list(self.sub_of):
                self.unsubscribe(cid)
            if kind == "restart":
                self.rebooted = st.t
            for tk in st.ticks:
                self.process_tick(tk, start=True)
        elif kind == "fill":
            self.h_fill(op, st)
        if st.after is not None and kind != "advance" and kind not in ("restart", "rephase"):
            self.compare_state(st.after, st.t)
            self.soft(self.compare_usage, st.ubefore, st.uafter, st.t)
        elif st.after is not None:
            self.compare_state(st.after, st.t)
        if st.errors and kind in ("send", "connect", "drop"):
            self.mm("internal-error", "internal error: %r" % (st.errors,))

    # ---- client commands
    def h_send(self, j, op, st, tr_before):
        cid = op["c"]
        msg = st.op["rmsg"]
        cs = tr_before[cid]
        verdict, ckind = classify(cs, msg)
        fs = [f for (c, f) in st.frames if c == cid and f.get("type") != "ack"]
        others = [(c, f) for (c, f) in st.frames if c != cid]
        errs = [f for f in fs if f.get("type") == "error"]
        err = errs[0].get("error") if errs else None
        t = msg.get("type")
        if t != "add" and others:
            self.mm("stray-frame", "frames on other connections: %r" % (others,))
        if verdict == MUST_ERROR:
            return
        if verdict == EITHER and err is not None and err not in ("crowded", "reclaimed"):
            self.note("unspecified_refused")
            return
        if t == "bind":
            self.soft(self.h_bind, cs, msg, st)
        elif t == "list":
            self.soft(self.h_list, cs, fs)
        elif t == "allocate":
            self.h_allocate(cs, op, st, fs, err)
        elif t == "claim":
            self.h_claim(cs, msg["nameplate"], st, fs, err, cid)
        elif t == "release":
            self.h_release(cs, msg, st, fs, err)
        elif t == "open":
            self.h_open(cs, msg["mailbox"], st, fs, err, cid)
        elif t == "add":
            self.h_add(cs, msg, st, cid)
        elif t == "close":
            self.h_close(cs, msg, st, fs, err, cid)

    def h_bind(self, cs, msg, st):
        if self.usage and st.uafter is not None:
            new = _new_rows(st.ubefore["client_versions"], st.uafter["client_versions"])
            cv = msg.get("client_version")
            impl, ver = (cv[0], cv[1]) if cv else (None, None)
            # the statement is about the stored connect time only: every row this bind wrote is judged
            for r in new:
                self.check_blur("bind", r[2], st.t)

    def check_blur(self, path, stored, true_t):
        self.note("usage_time_" + path)
        if self.blur:
            if stored % self.blur != 0:
                self.mm("blur", "%s: stored time %r is not a multiple of the blur interval %r (true time %r)" % (path, stored, self.blur, true_t))
            if not (0 <= true_t - stored < self.blur):
                self.mm("blur", "%s: stored time %r is not within one interval (%r) below the true time %r" % (path, stored, self.blur, true_t))
            if true_t % self.blur != 0:
                self.note("blur_nontrivial_" + path)
        # (without a blur interval the statement demands nothing of the stored time)

    def h_list(self, cs, fs):
        ans = [f for f in fs if f.get("type") == "nameplates"]
        if len(ans) != 1 or len(fs) != 1:
            self.mm("list", "list not answered by exactly one nameplates frame: %r" % (fs,))
        got = ans[0].get("nameplates")
        if not isinstance(got, list) or any(not isinstance(x, dict) or "id" not in x for x in got):
            self.mm("list", "malformed nameplates answer %r" % (got,))
        ids = [x["id"] for x in got]
        if not self.allow_list:
            if ids:
                self.mm("list", "listing disallowed but answer is %r" % (ids,))
            self.note("list_disallowed")
            return
        want = self.live_names(cs.app)
        sure = set(n for n in want if not self.np[(cs.app, n)].crowd)
        if len(ids) != len(set(ids)):
            self.mm("list", "nameplate listed twice: %r" % (ids,))
        if not (sure <= set(ids) <= want):
            self.mm("list", "list answer %r != live nameplates %r of app %r" % (sorted(ids), sorted(want), cs.app))
        self.note("list_allowed")
        if len(want) >= 2:
            self.note("list_two_or_more")

    def expected_alloc_len(self, names):
        for size in (1, 2, 3):
            lo, hi = 10 ** (size - 1), 10 ** size
            if any(("%d" % i) not in names for i in range(lo, hi)):
                return size
        return None

    def h_allocate(self, cs, op, st, fs, err):
        ans = [f for f in fs if f.get("type") == "allocated"]
        if len(ans) != 1 or len(fs) != 1:
            self.mm("alloc", "allocate not answered by exactly one allocated frame: %r" % (fs,))
        name = ans[0].get("nameplate")
        if not isinstance(name, str) or not re.match(r"^[1-9][0-9]*$", name) or not name.isascii():
            self.mm("alloc", "allocated nameplate %r is not a positive decimal without leading zeros" % (name,))
        app = cs.app
        before_names = set(r[2] for r in st.before["nameplates"] if r[1] == app)
        live = self.live_names(app)
        if name in before_names or name in live:
            self.mm("alloc", "allocated nameplate %r is already in use in app %r" % (name, app))
        want_len = self.expected_alloc_len(before_names | live)
        if want_len is None:
            if not (4 <= len(name) <= 6):
                self.mm("alloc", "all 999 short nameplates taken, but allocated %r is not 4-6 digits" % name)
            self.note("alloc_long")
        else:
            if len(name) != want_len:
                self.mm("alloc", "allocated %r but a free %d-digit nameplate exists" % (name, want_len))
            if want_len > 1:
                self.note("alloc_tier_%d" % want_len)
        if before_names:
            self.note("alloc_nonempty")
        rows = [r for r in st.after["nameplates"] if r[1] == app and r[2] == name]
        if len(rows) != 1:
            self.mm("alloc", "after allocate, %d nameplate rows for %r" % (len(rows), name))
        npid, mid = rows[0][0], rows[0][3]
        held = [r for r in st.after["nameplate_sides"] if r[0] == npid and r[2] == cs.side and r[1]]
        if not held:
            self.mm("alloc", "allocated %r but the allocating side holds no claim on it when the answer is sent" % name)
        self.new_channel(app, name, mid, cs.side, st.t)
        self.note("allocations")

    def new_channel(self, app, name, mid, side, t):
        if mid in self.ids_ever:
            self.mm("claimed-id", "mailbox id %r handed out for %r/%r was used before for %r" % (mid, app, name, self.ids_ever[mid]))
        self.ids_ever[mid] = (app, name)
        mb = MMailbox(app, mid, True, t)
        mb.sides[side] = MSide(side, t)
        self.mb[(app, mid)] = mb
        np = MNameplate(app, name, mid, t)
        np.sides[side] = MSide(side, t)
        self.np[(app, name)] = np
        return np, mb

    def h_claim(self, cs, name, st, fs, err, cid):
        app, S, t = cs.app, cs.side, st.t
        key = (app, name)
        np = self.np.get(key)
        claimed = [f for f in fs if f.get("type") == "claimed"]
        if np is None:
            if err is not None or len(claimed) != 1 or len(fs) != 1:
                self.mm("claim-refused", "claim of the free nameplate %r answered %r" % (name, fs))
            mid = claimed[0].get("mailbox")
            if not isinstance(mid, str) or not mid:
                self.mm("claimed-id", "claimed without a mailbox id: %r" % (claimed[0],))
            np, mb = self.new_channel(app, name, mid, S, t)
            np.told.add(S)
            self.note("claims_new")
            if any(a != app and n == name for (a, n) in self.np):
                self.note("same_name_two_apps")
            return
        mb = self.mb.get((app, np.mailbox))
        if mb is None:
            raise Mismatch("model-inconsistency", "model inconsistency: nameplate %r without mailbox" % name)
        mb.last_touch = t
        sd = np.sides.get(S)
        if sd is not None and not sd.flag and S not in np.refused:
            if err != "reclaimed":
                self.mm("np-life", "side %r released %r earlier, but its new claim was answered %r instead of error reclaimed" % (S, name, fs))
            if st.before != st.after:
                self.mm("np-life", "refused re-claim changed stored state")
            self.note("reclaimed")
            return
        third = S not in mb.sides and len(mb.sides) >= 2
        if third or S in mb.refused:
            ok_errs = ("crowded",) if third else ("crowded", "reclaimed")
            if err not in ok_errs or len(fs) != 1:
                self.mm("crowd", "side %r is a third party on nameplate %r (sides %r) but was answered %r" % (S, name, sorted(mb.sides), fs))
            self.refuse(mb, np, S, t, st)
            return
        if mb.crowd or np.crowd:
            self.note("first_two_side_returns_after_refusal")
            first_two_claimants = list(np.sides)[:2]
            if err == "crowded" and S not in first_two_claimants and len(np.sides) >= 2:
                # one of the first two sides of the *mailbox* that is not one
                # of the first two claimants of the nameplate: unspecified
                self.note("O1_unspecified_refusal")
                if S not in np.sides:
                    np.sides[S] = MSide(S, t)     # it tried: counts as a side of the nameplate
                return
            if err == "crowded":
                self.mm("crowd", "side %r is one of the first two sides of nameplate %r (sides %r, refused %r) but its claim was answered crowded"
                        % (S, name, list(np.sides), sorted(np.refused | mb.refused)))
        if err is not None or len(claimed) != 1 or len(fs) != 1:
            self.mm("claim-refused", "claim of %r by %r (sides %r) answered %r" % (name, S, sorted(np.sides), fs))
        if claimed[0].get("mailbox") != mb.id:
            self.mm("claimed-id", "claim of %r answered mailbox %r, earlier claimants were told %r" % (name, claimed[0].get("mailbox"), mb.id))
        if S not in np.sides:
            np.sides[S] = MSide(S, t)
        if S not in mb.sides:
            mb.sides[S] = MSide(S, t)
        if len(np.told) >= 1 and S not in np.told:
            self.note("second_side_claimed")
        if S in np.told:
            self.note("reclaim_same_side")
        np.told.add(S)
        if len(np.told) > 2:
            self.mm("crowd", "more than two sides were told the mailbox of nameplate %r: %r" % (name, sorted(np.told)))
        mb.last_act = t

    def refuse(self, mb, np, S, t, st):
        """A third side was (correctly) refused.  What the refusal leaves
        behind is unspecified: mark the objects; the first two sides must keep
        their messages and records."""
        self.note("third_party_refused")
        if any(not s.flag for s in mb.sides.values()) or (np is not None and any(not s.flag for s in np.sides.values())):
            self.note("third_party_after_leave")
        mb.crowd = True
        mb.refused.add(S)
        mb.last_touch = t
        if S not in mb.sides:
            mb.sides[S] = MSide(S, t)
        if np is not None:
            np.crowd = True
            np.refused.add(S)
            if S not in np.sides:
                np.sides[S] = MSide(S, t)
        # the refused side learns neither the id nor a message
        for c, f in st.frames:
            if f.get("type") in ("claimed", "message"):
                self.mm("crowd", "refused side was sent %r" % (f,))
            if f.get("type") == "error" and _contains_value({k: v for k, v in f.items() if k not in ("orig", "type")}, mb.id):
                self.mm("crowd", "error frame leaks the mailbox id: %r" % (f,))
        # stored messages and first-two side records untouched
        b = [r for r in st.before["messages"] if r[0] == mb.app and r[1] == mb.id]
        a = [r for r in st.after["messages"] if r[0] == mb.app and r[1] == mb.id]
        if a != b:
            self.mm("crowd", "refusing a third side changed the stored messages")
        bs = [r[:2] + r[2:] for r in st.before["mailbox_sides"] if r[0] == mb.id and r[2] != S]
        as_ = [r for r in st.after["mailbox_sides"] if r[0] == mb.id and r[2] != S]
        if bs != as_:
            self.mm("crowd", "refusing a third side changed the first sides' records")

    def h_release(self, cs, msg, st, fs, err):
        app, S, t = cs.app, cs.side, st.t
        name = msg["nameplate"] if "nameplate" in msg else cs.claim_np
        if name is None:
            self.adopt(st.after, t)
            return
        if [f.get("type") for f in fs] != ["released"]:
            self.mm("np-life", "release answered %r instead of released" % (fs,))
        key = (app, name)
        np = self.np.get(key)
        if np is None:
            if st.before != st.after:
                self.mm("np-life", "release of the unknown nameplate %r changed stored state" % name)
            self.note("release_nonexistent")
            return
        mb = self.mb.get((app, np.mailbox))
        if mb is not None:
            mb.last_touch = t
        sd = np.sides.get(S)
        if sd is None:
            if st.before != st.after:
                self.mm("np-life", "release by %r, which holds no claim on %r, changed stored state" % (S, name))
            self.note("release_by_nonholder")
            return
        if not sd.flag:
            self.note("release_again")
        sd.flag = False
        if not any(s.flag for s in np.sides.values()):
            if np.crowd:
                return          # adopt from the snapshot
            self.retire_np(key, t, pruned=False, path="release")
            self.note("last_release")
            if len(np.sides) >= 2:
                self.note("last_release_two_holders")
        else:
            self.note("release_not_last")

    def h_open(self, cs, mid, st, fs, err, cid):
        app, S, t = cs.app, cs.side, st.t
        key = (app, mid)
        mb = self.mb.get(key)
        msgs = [f for f in fs if f.get("type") == "message"]
        if mb is None:
            if err is not None:
                self.mm("mb-life", "open of the fresh mailbox id %r answered %r" % (mid, fs))
            if mid in self.ids_ever:
                self.note("reopen_after_deletion")
            self.ids_ever.setdefault(mid, (app, None))
            mb = MMailbox(app, mid, False, t)
            self.mb[key] = mb
            mb.sides[S] = MSide(S, t)
            if msgs:
                self.mm("replay-leak", "open of mailbox id %r, which does not exist in app %r, was sent %r" % (mid, app, msgs[:3]))
            if len(fs) != 0:
                self.mm("replay", "open of a mailbox id that does not exist replayed %r" % (fs,))
            self.subscribe(cid, mb, S)
            self.note("open_new")
            return
        mb.last_touch = t
        np = self.np_of(mb)
        third = S not in mb.sides and len(mb.sides) >= 2
        if third or S in mb.refused:
            if err != "crowded" or len(fs) != 1:
                self.mm("crowd", "side %r is a third party on mailbox %r (sides %r) but was answered %r" % (S, mid, sorted(mb.sides), fs))
            self.refuse_mb_only(mb, S, t, st)
            return
        if mb.crowd:
            self.note("first_two_side_returns_after_refusal")
            if err == "crowded":
                self.mm("crowd", "side %r is one of the first two sides of mailbox %r (sides %r, refused %r) but its open was answered crowded"
                        % (S, mid, list(mb.sides), sorted(mb.refused)))
        if err is not None:
            self.mm("mb-life", "open of mailbox %r by %r (sides %r) answered %r" % (mid, S, sorted(mb.sides), fs))
        if len(fs) != len(msgs):
            self.mm("replay", "open answered with non-message frames %r" % (fs,))
        got = sorted(((f.get("side"), f.get("phase"), f.get("body"), f.get("id")) for f in msgs), key=fkey)
        want = sorted(mb.msgs, key=fkey)
        if got != want:
            foreign = [g for g in got if g not in want]
            if foreign:
                self.mm("replay-leak", "open of %r (app %r) was sent %r, which no one added to this mailbox of this app (stored: %r)" % (mid, app, foreign[:3], want[:3]))
            self.mm("replay", "open of %r replayed %r, stored messages are %r" % (mid, got, want))
        if want:
            self.note("replayed_nonempty")
            if any(m[0] != S for m in want):
                self.note("replayed_from_other_side")
            busy = sum(1 for k, o in self.mb.items() if k != key and o.msgs)
            if busy:
                self.note("replay_with_other_busy")
        if S not in mb.sides:
            mb.sides[S] = MSide(S, t)
        mb.last_act = t
        self.subscribe(cid, mb, S)

    def refuse_mb_only(self, mb, S, t, st):
        np = self.np_of(mb)
        self.refuse(mb, None, S, t, st)
        if np is not None:
            np.crowd = True

    def np_of(self, mb):
        for np in self.np.values():
            if np.app == mb.app and np.mailbox == mb.id:
                return np
        return None

    def subscribe(self, cid, mb, S):
        self.unsubscribe(cid)
        mb.subs.add(cid)
        self.sub_of[cid] = (mb.app, mb.id)
        mb.told.add(S)
        if len(mb.told) > 2:
            self.mm("crowd", "more than two sides subscribed to / were sent messages of mailbox %r: %r" % (mb.id, sorted(mb.told)))
        if len(mb.subs) >= 2:
            self.note("two_subscribers")
        if self.nticks > 1:
            mb.ever_subscribed_after_sweep = True

    def h_add(self, cs, msg, st, cid):
        app, S, t = cs.app, cs.side, st.t
        key = self.sub_of.get(cid)
        if key is None or key not in self.mb:
            raise Mismatch("model-inconsistency", "model inconsistency: add on a connection without subscription")
        mb = self.mb[key]
        item = (S, msg["phase"], msg["body"], msg.get("id"))
        mb.msgs.append(item)
        mb.last_act = mb.last_touch = t
        per = {}
        for c, f in st.frames:
            if f.get("type") == "ack" and c == cid:
                continue
            per.setdefault(c, []).append(f)
        for c in mb.subs:
            got = per.pop(c, [])
            if len(got) != 1 or got[0].get("type") != "message":
                self.mm("fanout", "add on %r: subscriber c%d received %r instead of exactly one message" % (mb.id, c, got))
                continue
            f = got[0]
            if (f.get("side"), f.get("phase"), f.get("body"), f.get("id")) != item:
                self.mm("fanout", "add %r by side %r delivered to c%d as %r" % (msg, S, c, f))
        if per:
            self.mm("fanout", "add on %r reached connections that are not subscribed to it: %r (subscribers %r)" % (mb.id, per, sorted(mb.subs)))
        self.note("adds")
        if len(mb.subs) >= 2:
            self.note("add_two_subscribers")
            if mb.ever_subscribed_after_sweep:
                self.note("add_two_subscribers_after_sweep")
        if "side" in msg and msg["side"] != S:
            self.note("add_forged_side")

    def h_close(self, cs, msg, st, fs, err, cid):
        app, S, t = cs.app, cs.side, st.t
        mid = msg["mailbox"] if "mailbox" in msg else cs.open_id
        key = (app, mid)
        mb = self.mb.get(key)
        mood = msg.get("mood")
        if not cs.holds:
            # the server opens first (so a re-sent close finds something to close)
            if mb is None:
                if [f.get("type") for f in fs] != ["closed"]:
                    self.mm("mb-life", "close of the absent mailbox %r answered %r instead of closed" % (mid, fs))
                # an incarnation that exists only inside this command: its
                # usage record is optional
                ghost = MMailbox(app, mid, False, t)
                ghost.sides[S] = MSide(S, t)
                ghost.sides[S].mood = mood
                rec = self.predict_mb_record(ghost, t, False)
                self.pending_usage.append((rec, True, "ghost"))
                self.note("close_absent")
                return
            mb.last_touch = t
            third = S not in mb.sides and len(mb.sides) >= 2
            if third or S in mb.refused:
                if err != "crowded" or len(fs) != 1:
                    self.mm("crowd", "side %r is a third party on mailbox %r (sides %r) but its close was answered %r" % (S, mid, sorted(mb.sides), fs))
                self.refuse_mb_only(mb, S, t, st)
                return
            if mb.crowd:
                self.note("first_two_side_returns_after_refusal")
                if err == "crowded":
                    self.mm("crowd", "side %r is one of the first two sides of mailbox %r (sides %r, refused %r) but its close was answered crowded"
                            % (S, mid, list(mb.sides), sorted(mb.refused)))
            if S not in mb.sides:
                mb.sides[S] = MSide(S, t)
                self.note("close_by_new_side")
        else:
            if mb is None:
                raise Mismatch("model-inconsistency", "model inconsistency: held mailbox %r unknown" % mid)
            mb.last_touch = t
        if [f.get("type") for f in fs] != ["closed"]:
            self.mm("mb-life", "close of %r by %r answered %r instead of closed" % (mid, S, fs))
        self.unsubscribe(cid)
        sd = mb.sides[S]
        if not sd.flag:
            self.note("close_again")
        sd.flag = False
        sd.mood = mood
        if any(s.flag for s in mb.sides.values()):
            self.note("close_not_last")
            return
        if mb.crowd:
            return              # adopt from the snapshot
        np = self.np_of(mb)
        if np is not None:
            self.note("last_close_with_nameplate")
            if any(s.flag for s in np.sides.values()):
                self.note("last_close_nameplate_still_claimed")
        if mb.subs:
            self.note("last_close_with_lingering_subscriber")
        self.retire_mb(key, t, pruned=False, path="close")
        self.note("last_close")

    def h_fill(self, op, st):
        app, side, t = op["app"], op.get("side", "filler"), st.t
        rows = {r[2]: r for r in st.after["nameplates"] if r[1] == app}
        for name in op["names"]:
            key = (app, name)
            if key in self.np:
                np = self.np[key]
                mb = self.mb[(app, np.mailbox)]
                if side not in mb.sides and len(mb.sides) >= 2:
                    mb.crowd = np.crowd = True
                    mb.refused.add(side)
                if side not in np.sides:
                    np.sides[side] = MSide(side, t)
                if side not in mb.sides:
                    mb.sides[side] = MSide(side, t)
                mb.last_act = mb.last_touch = t
            else:
                if name not in rows:
                    self.mm("np-life", "fill: claimed nameplate %r has no row" % name)
                self.new_channel(app, name, rows[name][3], side, t)

    # ---------------------------------------------------------------- ticks
    def process_tick(self, tk, start=False):
        s = tk.t
        self.nticks += 1
        self.pending_usage = []
        if tk.after is None:
            return
        if self.last_tick_t is not None and not start:
            if abs((s - self.last_tick_t) - self.P) > 1e-6:
                self.mm("timer", "sweep at %r, previous at %r: not one period (%r) apart" % (s, self.last_tick_t, self.P))
        self.last_tick_t = s
        after_mb = set((r[0], r[1]) for r in tk.after["mailboxes"])
        after_np = set((r[1], r[2]) for r in tk.after["nameplates"])
        if tk.faulted:
            self.note("faulted_sweeps")
            if after_mb != set((r[0], r[1]) for r in tk.before["mailboxes"]):
                pass
            self.adopt(tk.after, s)
            self.soft(self.check_current, tk, s)
            return
        if tk.errors:
            self.mm("sweep-error", "expiry sweep at %r failed internally: %r" % (s, tk.errors))
        if tk.frames:
            self.mm("stray-frame", "sweep sent frames %r" % (tk.frames,))
        deleted = survived = 0
        for key, mb in list(self.mb.items()):
            if mb.subs:
                mb.last_act = mb.last_touch = s
            present = key in after_mb
            if mb.subs or s - mb.last_act < self.E - EPS:
                if not present:
                    why = "has %d subscriber(s)" % len(mb.subs) if mb.subs else "was active %.3fs ago (< %.0fs)" % (s - mb.last_act, self.E)
                    self.mm("expiry-safety", "sweep at %r deleted mailbox %r of app %r although it %s" % (s, mb.id, mb.app, why))
                survived += 1
                if mb.subs:
                    self.note("subscriber_survived_sweep")
                    mb.sweeps_survived = getattr(mb, "sweeps_survived", 0) + 1
                    if mb.sweeps_survived >= 3:
                        self.note("subscriber_survived_3_sweeps")
            elif s - mb.last_touch > self.E + EPS:
                if present:
                    self.mm("expiry-liveness", "sweep at %r kept mailbox %r of app %r although it has no subscriber and was last touched %.3fs ago (> %.0fs)"
                            % (s, mb.id, mb.app, s - mb.last_touch, self.E))
            else:
                self.note("sweep_ambiguous_window")
            if not present:
                deleted += 1
                if mb.msgs:
                    self.note("swept_with_messages")
                self.retire_mb(key, s, pruned=True, path="expiry")
        for key, np in list(self.np.items()):
            if key not in after_np:
                # a nameplate may only go together with its mailbox
                self.mm("expiry-safety", "sweep at %r deleted nameplate %r of app %r but not its mailbox" % (s, np.name, np.app))
        if deleted and survived:
            self.note("sweep_deleted_and_kept")
        if deleted:
            self.note("sweeps_deleting")
        self.note("sweeps")
        self.compare_state(tk.after, s, sweep=True)
        self.soft(self.compare_usage, tk.ubefore, tk.uafter, s)
        self.soft(self.check_current, tk, s)

    def check_current(self, tk, s):
        if not self.usage or tk.uafter is None:
            return
        cur = tk.uafter["current"]
        want = (self.rebooted, s, self.cfg.get("blur"), self.subs_total())
        if len(cur) != 1:
            self.mm("current", "status table has %d rows after the sweep at %r" % (len(cur), s))
        got = cur[0]
        if got[1] is None or abs(got[1] - s) > 0.01:
            self.mm("timer", "status row updated=%r after the timer tick at %r" % (got[1], s))
        if got[3] != want[3]:
            self.mm("current", "status row reports %r subscribed connections, there are %r" % (got[3], want[3]))
        # (`rebooted` and `blur_time` are not part of any statement: not judged)
        if want[3]:
            self.note("current_with_subscribers")

    # -------------------------------------------------------- state compare
    def adopt(self, snap, t):
        """Make the model's existence sets equal to the snapshot's."""
        snap_mb = set((r[0], r[1]) for r in snap["mailboxes"])
        for key in list(self.mb):
            if key not in snap_mb:
                self.retire_mb(key, t, pruned=True, optional=True, path="adopted")
        snap_np = set((r[1], r[2]) for r in snap["nameplates"])
        for key in list(self.np):
            if key not in snap_np:
                self.retire_np(key, t, pruned=False, optional=True, path="adopted")
        self.pending_usage = [(r, True, p) for (r, o, p) in self.pending_usage]

    def compare_state(self, snap, t, sweep=False):
        if self.desynced:
            return
        # duplicates
        seen = set()
        for r in snap["nameplates"]:
            k = (r[1], r[2])
            if k in seen:
                self.mm("np-dup", "two nameplate rows for %r" % (k,))
            seen.add(k)
        snap_np = {(r[1], r[2]): r[3] for r in snap["nameplates"]}
        snap_mb = set((r[0], r[1]) for r in snap["mailboxes"])
        # crowd-tainted objects: adopt
        for key, mb in list(self.mb.items()):
            if mb.crowd and key not in snap_mb:
                self.note("adopted_crowd_deletion")
                self.retire_mb(key, t, pruned=sweep, optional=True, path="crowd")
        for key, np in list(self.np.items()):
            if np.crowd and key not in snap_np:
                self.note("adopted_crowd_deletion")
                self.retire_np(key, t, pruned=sweep, optional=True, path="crowd")
        model_np = {k: v.mailbox for k, v in self.np.items()}
        asp_np = "expiry-collateral" if sweep else "np-life"
        asp_mb = "expiry-collateral" if sweep else "mb-life"
        if model_np != snap_np:
            missing = sorted(set(model_np) - set(snap_np))
            extra = sorted(set(snap_np) - set(model_np))
            diff = sorted(k for k in set(model_np) & set(snap_np) if model_np[k] != snap_np[k])
            if missing:
                self.mm(asp_np, "nameplate(s) %r should still be live (claimed and not released by %s) but are gone"
                        % (missing, [sorted(s for s, v in self.np[k].sides.items() if v.flag) for k in missing]))
            if extra:
                if set(extra) & self.np_gone_with_mailbox:
                    self.mm(asp_mb, "nameplate(s) %r still stored although the mailbox they pointed at was deleted by its last close"
                            % (sorted(set(extra) & self.np_gone_with_mailbox),))
                self.mm(asp_np, "nameplate(s) %r are still stored although every claimant released them / their mailbox was deleted" % (extra,))
            self.mm("claimed-id", "nameplate(s) %r point at a different mailbox than their claimants were told" % (diff,))
        model_mb = set(self.mb)
        if model_mb != snap_mb:
            missing = sorted(model_mb - snap_mb)
            extra = sorted(snap_mb - model_mb)
            if missing:
                self.mm(asp_mb, "mailbox(es) %r should still exist (open sides %s) but are gone"
                        % (missing, [sorted(s for s, v in self.mb[k].sides.items() if v.flag) for k in missing]))
            self.mm(asp_mb, "mailbox(es) %r still stored although deleted by last close / never created" % (extra,))
        # messages
        want = sorted(((mb.app, mb.id) + m for mb in self.mb.values() for m in mb.msgs), key=fkey)
        got = sorted(((r[0], r[1], r[2], r[3], r[4], r[6]) for r in snap["messages"]), key=fkey)
        if want != got:
            lost = [m for m in want if m not in got]
            extra = [m for m in got if m not in want]
            if sweep and lost:
                self.mm("expiry-lost-messages", "the sweep removed messages of mailboxes that survive it: %r" % (lost[:4],))
            self.mm("msg-rows", "stored messages differ from what was added and not yet deleted: lost=%r unexpected=%r" % (lost[:4], extra[:4]))
        # side rows belong to live parents ("deleted together")
        np_ids = set(r[0] for r in snap["nameplates"])
        for r in snap["nameplate_sides"]:
            if r[0] not in np_ids:
                self.mm("orphan-rows", "nameplate side record %r without nameplate" % (r,))
        mb_ids = set(r[1] for r in snap["mailboxes"])
        for r in snap["mailbox_sides"]:
            if r[0] not in mb_ids:
                self.mm("orphan-rows", "mailbox side record %r without mailbox" % (r,))

    def compare_usage(self, ub, ua, t):
        if not self.usage or ua is None or ub is None:
            return
        for table, idx in (("nameplates", 0), ("mailboxes", 1)):
            new = _new_rows(ub[table], ua[table])
            preds = [(r, opt, p) for (r, opt, p) in self.pending_usage if r[0] == table]
            unmatched = list(new)
            for rec, opt, path in preds:
                hit = None
                for row in unmatched:
                    if self.row_matches(table, rec, row):
                        hit = row
                        break
                if hit is not None:
                    unmatched.remove(hit)
                    if table == "nameplates":
                        self.check_blur("nameplate-" + path, hit[1], rec[4])
                    else:
                        self.check_blur("mailbox-" + path, hit[2], rec[4])
                    self.note("usage_record_" + table + "_" + rec[7])
                elif not opt:
                    self.mm("usage", "no %s usage record like %r for the retirement by %s at %r; new rows: %r"
                            % (table, _rec_str(rec), path, t, new))
            if unmatched:
                self.mm("usage", "unexpected %s usage record(s) %r (predicted: %r)" % (table, unmatched, [_rec_str(r) for r, o, p in preds]))
        self.pending_usage = []

    def row_matches(self, table, rec, row):
        _, app, for_np, started_blur, t1, waiting, total, result = rec
        if table == "nameplates":
            r_app, r_started, r_wait, r_total, r_result = row[:5]
        else:
            r_app, r_fornp, r_started, r_total, r_wait, r_result = row[:6]
            # (for_nameplate is not part of the statement: not judged)
        if r_app != app or r_result != result:
            return False
        if (r_wait is None) != (waiting is None):
            return False
        if waiting is not None and abs(r_wait - waiting) > 1e-6:
            return False
        if abs(r_total - total) > 1e-6:
            return False
        # started is judged by check_blur (C16); here only coarse agreement
        if abs(r_started - t1) > (self.blur or 0) + 1e-6:
            return False
        return True

    def finish(self):
        pass


def _contains_value(obj, needle):
    if isinstance(obj, str):
        return obj == needle or (len(needle) >= 6 and needle in obj)
    if isinstance(obj, dict):
        return any(_contains_value(v, needle) for v in obj.values())
    if isinstance(obj, (list, tuple)):
        return any(_contains_value(v, needle) for v in obj)
    return False


def _new_rows(before, after):
    mx = max([r[-1] for r in before], default=0)
    return [r for r in after if r[-1] > mx]


def _rec_str(rec):
    return dict(table=rec[0], app=rec[1], for_nameplate=rec[2], started=rec[3], waiting=rec[5], total=rec[6], result=rec[7])


def _short(op):
    if op.get("op") == "send":
        return "c%s %s" % (op["c"], op["msg"])
    return str(op)
