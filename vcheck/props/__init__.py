"""Registry of checks: property id -> Check instance."""
import importlib

_IDS = ["C%02d" % i for i in range(1, 21)]


def get_check(pid):
    mod = importlib.import_module(".%s" % pid.lower(), __name__)
    return getattr(mod, pid)()


def available():
    out = []
    for pid in _IDS:
        try:
            importlib.import_module(".%s" % pid.lower(), __name__)
            out.append(pid)
        except ModuleNotFoundError as e:
            if e.name and e.name.endswith(pid.lower()):
                continue
            raise
    return out
