"""C01 - decided by the reference model (see vcheck/model.py)."""
from .modelchecks import ModelCheck


class C01(ModelCheck):
    id = "C01"
    profile = "replay"
    profiles = ['replay', 'replay', 'mixed', 'shared']
    usage_mode = "any"
    nt_rule = staticmethod(lambda ev: ev.get("replay_with_other_busy") or (ev.get("reopen_after_deletion") and ev.get("adds")))
    rule = "Hypothesis draws flow-structured histories (profiles replay/mixed: 2 apps sharing mailbox ids' shapes, adds from several sides, drops, closes to deletion, sweeps past expiry, restarts, re-opens); on every successful open the replayed (side, phase, body, id) multiset must equal the model's stored messages of that mailbox incarnation, and after every op the messages table must equal the model's. Non-trivial = a history with an open that replayed >=1 message while another mailbox/app also held messages, or a re-open of an id after its deletion (with adds); distinct by hash of (config, concrete script)."
    level_text = 'Generated-history exploration with a reference-model oracle for replay-on-open: multiset equality of replayed messages with everything added to the current incarnation, plus equality of the stored message rows after every step; thousands of histories with restarts, sweeps, deletions and re-opens. No proof of absence.'
    assumptions = ["single-threaded server: schedules = total orders of commands, disconnects, timer ticks and restarts",
                   "virtual clock; SQLite atomic commit; identifiers are strings",
                   "known finding R3 (same mailbox id in two apps) excluded by construction"]
    quick = {'examples': 2400, 'max_ops': 40, 'workers': 8}
    thorough = {'examples': 120000, 'max_ops': 100, 'workers': 16}
