"""C02 - decided by the reference model (see vcheck/model.py)."""
from .modelchecks import ModelCheck


class C02(ModelCheck):
    id = "C02"
    profile = "fanout"
    profiles = ['fanout', 'fanout', 'mixed', 'shared']
    usage_mode = "any"
    nt_rule = staticmethod(lambda ev: ev.get("add_two_subscribers_after_sweep"))
    rule = "Histories from profile fanout/mixed (2-6 connections of <=3 sides on few mailboxes, two connections of one side, drops, closes, sweeps, restarts, bind-then-sweep-then-open orders, adds with a forged side key). For every add: each subscribed connection (model: successful open until close/drop/deletion) receives exactly one message frame with the command's phase/body/id and the adder's bind side, every other connection receives nothing. Non-trivial = a history with an add delivered to >=2 subscribers of which one subscribed after a sweep or restart; distinct by hash of (config, script)."
    level_text = "Generated-history exploration; the oracle is the model's subscription set per mailbox incarnation and exact per-connection frame attribution (handlers are synchronous, so frames caused by a command are exactly those appended during it)."
    assumptions = ["single-threaded server: schedules = total orders of commands, disconnects, timer ticks and restarts",
                   "virtual clock; SQLite atomic commit; identifiers are strings",
                   "known finding R3 (same mailbox id in two apps) excluded by construction"]
    quick = {'examples': 2400, 'max_ops': 40, 'workers': 8}
    thorough = {'examples': 120000, 'max_ops': 100, 'workers': 16}
