"""C03 - decided by the reference model (see vcheck/model.py)."""
from .modelchecks import ModelCheck


class C03(ModelCheck):
    id = "C03"
    profile = "claims"
    profiles = ['claims', 'claims', 'mixed']
    usage_mode = "any"
    nt_rule = staticmethod(lambda ev: (ev.get("second_side_claimed") or ev.get("reclaim_same_side")) and (ev.get("same_name_two_apps") or ev.get("retired_np_release") or ev.get("retired_mb_close") or ev.get("retired_mb_expiry")))
    rule = 'Histories from profile claims/mixed (same names in several apps, re-claims on new connections and after restarts, release-to-retirement then re-claim, close-to-deletion then re-claim, expiry then re-claim). Every claimed answer of one nameplate incarnation must carry the same mailbox id; the id handed out for a new incarnation (new name, same name in another app, re-incarnation) must never have been used before; no duplicate (app,name) rows. Non-trivial = a history in which a nameplate got a second claimed answer (other side or same side again) and there was also the same name live in two apps or a retirement followed later; distinct by hash of (config, script).'
    level_text = 'Generated-history exploration with the model tracking nameplate incarnations and the set of every mailbox id ever handed out (raw ids, no canonicalisation). Catches systematic loss of uniqueness/stability, not 2^-64 collisions.'
    assumptions = ["single-threaded server: schedules = total orders of commands, disconnects, timer ticks and restarts",
                   "virtual clock; SQLite atomic commit; identifiers are strings",
                   "known finding R3 (same mailbox id in two apps) excluded by construction"]
    quick = {'examples': 2400, 'max_ops': 40, 'workers': 8}
    thorough = {'examples': 120000, 'max_ops': 100, 'workers': 16}
