"""C04 - allocate returns a free, shortest-available nameplate and holds it."""
import itertools, multiprocessing

from hypothesis import strategies as st

from .modelchecks import ModelCheck
from ..model import ModelObserver
from ..runner import Violation, Stats
from ..world import World
from ..script import Exec
from ..gen import Driver, PROFILES


def _run_script_with_model(cfg, script, owner="C04"):
    with World(cfg) as w:
        obs = ModelObserver(w, cfg, owner)
        d = Driver(w, PROFILES["alloc"], on_step=obs.on_step)
        obs.driver = d
        try:
            for op in script:
                d.do(op)
        except Violation as v:
            v.payload = {"property": owner, "cfg": cfg, "script": script}
            raise
        return obs


def _subset_job(args):
    """All k for one in-use subset of {1..9} (bitmask), both listing configs."""
    mask, ks, allow = args
    import warnings
    warnings.simplefilter("ignore")
    names = ["%d" % i for i in range(1, 10) if (mask >> (i - 1)) & 1]
    # non-canonical spellings of the free values are different names: they
    # must not make a free value look taken
    free = [i for i in range(1, 10) if not (mask >> (i - 1)) & 1]
    if mask % 3 == 0:
        names += ["0%d" % i for i in free] + ["00%d" % free[0]] if free else []
    elif mask % 3 == 1:
        names += ["%d " % i for i in free[:2]] + [chr(0xff10 + i) for i in free[:1]]
    n = 0
    for k in ks:
        cfg = {"usage": False, "blur": None, "allow_list": allow}
        script = []
        if names:
            script.append({"op": "fill", "app": "A", "names": names, "side": "filler"})
        script += [{"op": "connect", "c": 0},
                   {"op": "send", "c": 0, "msg": {"type": "bind", "appid": "A", "side": "s1"}},
                   {"op": "send", "c": 0, "msg": {"type": "allocate"}, "rnd": [k, k]},
                   {"op": "connect", "c": 1},
                   {"op": "send", "c": 1, "msg": {"type": "bind", "appid": "A", "side": "s2"}},
                   {"op": "send", "c": 1, "msg": {"type": "allocate"}, "rnd": [k + 1, k]}]
        try:
            _run_script_with_model(cfg, script)
        except Violation as v:
            return ("violation", v.msg, v.payload)
        n += 1
    return ("ok", n, None)


def _holes_job(args):
    """Single-hole configurations of 1..hi: one world, every hole in turn."""
    hi, holes, k, allow = args
    import warnings
    warnings.simplefilter("ignore")
    cfg = {"usage": False, "blur": None, "allow_list": allow}
    with World(cfg) as w:
        ex = Exec(w)
        cids = {}
        cid = 0
        # one live connection per name so that each can release its own claim
        w.light = True
        for i in range(1, hi + 1):
            w.connect(cid)
            w.send(cid, {"type": "bind", "appid": "A", "side": "holder"})
            st = w.send(cid, {"type": "claim", "nameplate": "%d" % i})
            if not any(f.get("type") == "claimed" for c, f in st.frames):
                return ("violation", "setup: claim of %d refused: %r" % (i, st.frames), None)
            cids[i] = cid
            cid += 1
        w.light = False
        w.steps = []
        n = 0
        for h in holes:
            w.light = True
            st = w.send(cids[h], {"type": "release"})
            a = cid
            cid += 1
            w.connect(a)
            w.send(a, {"type": "bind", "appid": "A", "side": "holder"})
            st = w.send(a, {"type": "allocate"}, rnd=(k + n, k))
            w.light = False
            w.steps = []
            ans = [f for c, f in st.frames if f.get("type") == "allocated"]
            if len(ans) != 1 or ans[0].get("nameplate") != "%d" % h:
                payload = {"property": "C04", "cfg": cfg, "script": [
                    {"op": "fill", "app": "A", "names": ["%d" % i for i in range(1, hi + 1) if i != h], "side": "holder"},
                    {"op": "connect", "c": 0}, {"op": "send", "c": 0, "msg": {"type": "bind", "appid": "A", "side": "s1"}},
                    {"op": "send", "c": 0, "msg": {"type": "allocate"}, "rnd": [k + n, k]}]}
                return ("violation", "1..%d all in use except %d, but allocate answered %r" % (hi, h, st.frames), payload)
            cids[h] = a        # the allocator now holds h
            n += 1
        # everything 1..hi taken now: next answer must be the next tier / 4-6 digits
        a = cid
        w.connect(a)
        w.send(a, {"type": "bind", "appid": "A", "side": "other"})
        st = w.send(a, {"type": "allocate"}, rnd=(k, k * 7919))
        ans = [f.get("nameplate") for c, f in st.frames if f.get("type") == "allocated"]
        want_len = len("%d" % hi) + 1 if hi < 999 else None
        ok = len(ans) == 1 and isinstance(ans[0], str) and ans[0].isdigit() and ans[0][0] != "0" and \
            ((want_len is not None and len(ans[0]) == want_len) or (want_len is None and 4 <= len(ans[0]) <= 6))
        if not ok:
            return ("violation", "1..%d all in use, allocate answered %r" % (hi, st.frames), None)
        n += 1
    return ("ok", n, None)


class C04(ModelCheck):
    id = "C04"
    profile = "alloc"
    profiles = ["alloc"]
    usage_mode = "off"
    rule = ("(a) Histories from profile alloc: `fill` ops build the in-use set through ordinary claims (random subsets of 1-9, "
            "all of 1-9 / 1-99 / 1-999 but holes, look-alike non-numeric names such as '007', Arabic-Indic and full-width "
            "digits, ' 1'), mixed with allocations by several sides/apps, releases that open holes, closes and sweeps; every "
            "allocate carries the outcome of the server's random choice as a generated input; listing allowed and disallowed. "
            "For each allocated frame: matches [1-9][0-9]*, not in the app's live set (model and stored rows before the "
            "command), length = smallest L in {1,2,3} with a free L-digit value else 4-6, and in the rows after the command the "
            "allocating side holds a claim on it. (b) Enumeration: every in-use subset of {1..9} x choice outcomes x listing "
            "config (two consecutive allocations each), and every single-hole configuration of 1..9, 1..99 and (thorough: all, "
            "quick: a sample) 1..999, then the full tier. Non-trivial = an allocate with a non-empty in-use set containing a "
            "hole or a full shorter tier; distinct by hash of (config, script) / by enumerated configuration.")
    level_text = ("Generated-history exploration of in-use sets with the allocator's random choice as an input, plus bounded "
                  "exhaustive enumeration of the 1-digit in-use sets and of the single-hole configurations of each tier.")
    quick = dict(examples=480, max_ops=30, workers=8)
    thorough = dict(examples=24000, max_ops=60, workers=16)

    @staticmethod
    def nt_rule(ev):
        return ev.get("alloc_nonempty") and (ev.get("alloc_tier_2") or ev.get("alloc_tier_3") or ev.get("alloc_long") or ev.get("fills"))

    def make_observer(self, world, cfg):
        obs = ModelCheck.make_observer(self, world, cfg)
        return obs

    def enumerate(self, tier, seed, stats):
        quick = tier == "quick"
        ks = [0, 4] if quick else list(range(9))
        jobs = [(mask, ks, allow) for mask in range(512) for allow in ((True, False) if not quick else (bool(mask % 2),))]
        hole_jobs = [(9, list(range(1, 10)), k, True) for k in ((0,) if quick else range(3))]
        hole_jobs += [(99, list(range(10, 100)) if not quick else list(range(10, 100, 7)), 1, False)]
        if quick:
            hole_jobs += [(999, [100, 555, 999], 2, True)]
        else:
            for lo in range(100, 1000, 75):
                hole_jobs += [(999, list(range(lo, min(lo + 75, 1000))), lo, bool(lo % 2))]
        ctx = multiprocessing.get_context("fork")
        total = 0
        with ctx.Pool(16 if not quick else 8) as pool:
            r1 = pool.map(_subset_job, jobs, chunksize=8)
            r2 = pool.map(_holes_job, hole_jobs, chunksize=1)
        for (kind, x, payload), job in list(zip(r1, jobs)) + list(zip(r2, hole_jobs)):
            if kind == "violation":
                raise Violation("enumeration %r: %s" % (job[:1], x), payload or {"property": "C04", "job": repr(job)})
            total += x
        for mask, ks_, allow in jobs:
            if mask:
                stats.nontrivial.add("subset-%d-%s" % (mask, allow))
        for hi, holes, k, allow in hole_jobs:
            for h in holes:
                stats.nontrivial.add("hole-%d-%d" % (hi, h))
        stats.evaluations += total
        if len(stats.samples) < stats.max_samples + 1:
            stats.samples.append({"enumerated": "in-use subset {1,3,4,9} of 1..9 (mask 0b100001101), choice outcome k=4, then two allocations"})
        return {"enumerated_subsets_of_1_9": len(jobs), "choice_outcomes_per_subset": len(ks),
                "single_hole_configurations": sum(len(j[1]) for j in hole_jobs),
                "exhaustive": (not quick),
                "exhaustive_scope": "all 512 in-use subsets of {1..9} x all 9 choice outcomes x both listing configs; all single-hole configurations of 1..9, 1..99, 1..999 (thorough tier only; quick samples)"}
