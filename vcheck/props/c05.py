"""C05 - decided by the reference model (see vcheck/model.py)."""
from .modelchecks import ModelCheck
from ..seqenum import enumerate_words


class C05(ModelCheck):
    id = "C05"
    profile = "crowd"
    profiles = ['crowd', 'crowd', 'mixed']
    usage_mode = "any"
    nt_rule = staticmethod(lambda ev: ev.get("third_party_refused"))
    rule = "Histories from profile crowd (3-4 sides over several connections all aiming at one nameplate/mailbox, closes/releases/drops of the first sides before the third arrives, retries, restarts). Per incarnation at most two sides are ever subscribed/sent messages or told the mailbox id; a third side must be answered exactly `crowded`, must never receive claimed/message frames or the id, also on retries; the refusal must leave stored messages and the first sides' records untouched. Non-trivial = a history in which a third distinct side attempted claim/open/close on an incarnation that already had two sides (class counter third_party_after_leave = one of the two had closed/released); distinct by hash of (config, script)."
    level_text = "Generated-history exploration with the model's per-incarnation side sets as oracle; what a refusal leaves behind is adopted from the observed state (DESIGN O1), so only the unambiguous part of the statement is asserted."
    assumptions = ["single-threaded server: schedules = total orders of commands, disconnects, timer ticks and restarts",
                   "virtual clock; SQLite atomic commit; identifiers are strings",
                   "known finding R3 (same mailbox id in two apps) excluded by construction"]
    quick = {'examples': 2400, 'max_ops': 40, 'workers': 8}
    thorough = {'examples': 120000, 'max_ops': 100, 'workers': 16}

    def enumerate(self, tier, seed, stats):
        """Bounded-exhaustive part: every word over {claim, release, open, add,
        close, reconnect} x 3 sides on one nameplate up to a length bound."""
        cfg = {"usage": True, "blur": None, "allow_list": True}
        return enumerate_words(self, cfg, ['s1', 's2', 's3'], 3 if tier == "quick" else 4,
                               8 if tier == "quick" else 16, stats, "C05")
