"""C06 - applications are isolated from each other."""
from .diff import DiffCheck, run_script, frames_by_conn, first_diff
from ..canon import Canon, script_literals
from ..runner import Violation, _subscript


def conn_apps(script):
    """Static map connection -> app it binds to (first well-formed bind)."""
    apps = {}
    for op in script:
        if op.get("op") == "send" and op["c"] not in apps:
            m = op["msg"]
            if m.get("type") == "bind" and "appid" in m and "side" in m:
                apps[op["c"]] = m["appid"]
    return apps


def rows_not_app(snap, app):
    """Everything stored that does not belong to `app` (side rows via parent)."""
    np_other = set(r[0] for r in snap["nameplates"] if r[1] != app)
    mb_other = set(r[1] for r in snap["mailboxes"] if r[0] != app)
    return {
        "nameplates": [r for r in snap["nameplates"] if r[1] != app],
        "nameplate_sides": [r for r in snap["nameplate_sides"] if r[0] in np_other],
        "mailboxes": [r for r in snap["mailboxes"] if r[0] != app],
        "mailbox_sides": [r for r in snap["mailbox_sides"] if r[0] in mb_other],
        "messages": [r for r in snap["messages"] if r[0] != app],
    }


class C06(DiffCheck):
    id = "C06"
    profile = "twoapps"
    profiles = ["twoapps", "twoapps", "mixed", "shared"]
    rule = ("A history H over two or three apps using identical nameplates, side strings and message contents is generated "
            "online (profiles twoapps/mixed; sweeps and restarts included). For every app B in it, H|B = H with all ops of "
            "connections bound to other apps removed (advance/restart kept, references renumbered) is executed on a fresh "
            "service. Oracle (metamorphic): canonical frames on B's connections, B's rows (with their side rows) after every "
            "kept op and timer tick, and usage rows with app_id=B are equal in H and H|B. Oracle (frame condition, same run): a "
            "command on a connection bound to A leaves everything stored for apps != A byte-identical. Non-trivial = B's "
            "projection has >=1 nameplate and >=1 message while the removed part used the same nameplate name or side string; "
            "distinct by hash of (config, script). Known finding R3 (same mailbox id in two apps) is excluded by construction: "
            "literal mailbox ids are made app-specific (counted as r3_excluded_literal_mailbox_ops); in the additional profile 'shared' the same literal id IS used in two apps, exactly the recorded failure (IntegrityError from _add_mailbox) ends such a history without verdict (known_R3_hit), anything else - e.g. another app's messages appearing - is judged.")
    level_text = ("Metamorphic exploration on the real service: every generated multi-app history is re-run once per app with the "
                  "other apps' commands removed and the app's observations and stored rows are compared; plus a stepwise frame "
                  "condition on foreign rows.")
    level_note = ("Trusts Hypothesis, SQLite, Twisted's clock. Mailbox ids/rowids canonicalised per app projection. The status "
                  "row (a global connection count) is not part of an app's observations. R3 is a recorded known finding "
                  "(needs a schema migration), its trigger is excluded by construction and its replay is run on every check.")
    technique = "Hypothesis-generated multi-app histories + metamorphic oracle (history vs. history with other apps removed) + stepwise frame condition, script-level ddmin"
    assumptions = ["allocation outcome is a generated input (random shim) and depends only on the app's own names"]
    quick = dict(examples=1400, max_ops=40, workers=8)
    thorough = dict(examples=40000, max_ops=100, workers=16)

    def judge(self, cfg, script, classes):
        wcfg = {k: v for k, v in cfg.items() if k != "profile"}
        capps = conn_apps(script)
        apps = sorted(set(capps.values()), key=repr)
        fill_apps = set(op["app"] for op in script if op.get("op") == "fill")
        apps = sorted(set(apps) | fill_apps, key=repr)
        lits = script_literals(script)
        classes["r3_excluded_literal_mailbox_ops"] = sum(
            1 for op in script if op.get("op") == "send" and isinstance(op["msg"].get("mailbox"), str))
        if len(apps) < 2:
            return False
        full = run_script(wcfg, script, uid="full", known=True)
        # frame condition in the full run
        for i, (op, o) in enumerate(zip(script, full)):
            if op.get("op") == "send" and op["c"] in capps and i > 0:
                a = capps[op["c"]]
                before = rows_not_app(full[i - 1].snap, a)
                after = rows_not_app(o.snap, a)
                if before != after:
                    raise Violation("op#%d %s on a connection bound to %r changed rows of other apps: %s"
                                    % (i, op["msg"], a, first_diff(before, after)), sig="C06 foreign rows changed")
        nt = False
        for B in apps:
            keep = [i for i, op in enumerate(script)
                    if not (("c" in op and capps.get(op["c"], B) != B) or (op.get("op") == "fill" and op["app"] != B))]
            # connections that never bind belong to no app: kept
            sub, order = _subscript(script, keep)
            if len(order) == len(script):
                continue
            part = run_script(wcfg, sub, uid="part", known=True)
            cf, cp = Canon(lits), Canon(lits)
            bconns = set(c for c, a in capps.items() if a == B)
            # frames: feed op by op so that canonical names follow B's own stream
            ff, fp = {}, {}
            for k, i in enumerate(order):
                for c, f in full[i].frames:
                    if c in bconns:
                        ff.setdefault(c, []).append((k, cf.frame(f)))
                for c, f in part[k].frames:
                    if c in bconns:
                        fp.setdefault(c, []).append((k, cp.frame(f)))
                if ff != fp:
                    raise Violation("app %r: frames of its connections at op#%d %s differ with/without the other apps' commands: %s"
                                    % (B, i, script[i], first_diff(ff, fp)), sig="C06 frames differ")
                for (ta, sa, ua), (tb, sb, ub) in zip(full[i].ticks, part[k].ticks):
                    x, y = cf.snapshot(sa, app=B), cp.snapshot(sb, app=B)
                    if x != y:
                        raise Violation("app %r: its rows after the sweep at %r (op#%d) differ with/without the other apps: %s"
                                        % (B, ta, i, first_diff(x, y)), sig="C06 tick rows differ")
                x, y = cf.snapshot(full[i].snap, app=B), cp.snapshot(part[k].snap, app=B)
                if x != y:
                    raise Violation("app %r: its stored rows after op#%d %s differ with/without the other apps' commands: %s"
                                    % (B, i, script[i], first_diff(x, y)), sig="C06 rows differ")
                x, y = cf.usage(full[i].usnap, app=B), cp.usage(part[k].usnap, app=B)
                if x != y:
                    raise Violation("app %r: its usage rows after op#%d %s differ with/without the other apps' commands: %s"
                                    % (B, i, script[i], first_diff(x, y)), sig="C06 usage differs")
            # non-triviality
            had_np = any(any(r[1] == B for r in o.snap["nameplates"]) for o in part if o.snap)
            had_msg = any(any(r[0] == B for r in o.snap["messages"]) for o in part if o.snap)
            removed = [script[i] for i in range(len(script)) if i not in set(order)]
            mine = [script[i] for i in order]

            def names(ops):
                s = set()
                for op in ops:
                    if op.get("op") == "send":
                        for key in ("nameplate", "side"):
                            v = op["msg"].get(key)
                            if isinstance(v, str):
                                s.add((key, v))
                return s
            if had_np and had_msg and (names(removed) & names(mine)):
                nt = True
        classes["apps_%d" % len(apps)] = 1
        return nt
