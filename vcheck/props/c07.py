"""C07 - decided by the reference model (see vcheck/model.py)."""
from .modelchecks import ModelCheck
from ..seqenum import enumerate_words


class C07(ModelCheck):
    id = "C07"
    profile = "holders"
    profiles = ['holders', 'holders', 'mixed', 'closers']
    usage_mode = "any"
    nt_rule = staticmethod(lambda ev: ev.get("last_release") and (ev.get("last_release_two_holders") or ev.get("close_not_last") or ev.get("last_close") or ev.get("release_by_nonholder") or ev.get("reclaimed")))
    rule = "Histories from profiles holders/mixed/closers (one side holding several nameplates over several connections, two sides on one name, releases in every order, re-release, release by non-holders, re-claim after release, closes of other mailboxes in between, list after steps). After every op the set of stored nameplates must equal the model's live set (claimed and not yet released by every claimant, mailbox not deleted/expired); list answers equal that set; release is always answered released; release by a non-holder and a refused re-claim (reclaimed) change nothing. Non-trivial = a history with a last release plus one of: two holders, a close of some mailbox, a non-holder release, a refused re-claim; distinct by hash of (config, script)."
    level_text = 'Generated-history exploration with a behavioural reference model of claims (who was answered claimed and has not released), compared with the stored nameplate set after every step and with every list/released/reclaimed answer.'
    assumptions = ["single-threaded server: schedules = total orders of commands, disconnects, timer ticks and restarts",
                   "virtual clock; SQLite atomic commit; identifiers are strings",
                   "known finding R3 (same mailbox id in two apps) excluded by construction"]
    quick = {'examples': 2400, 'max_ops': 40, 'workers': 8}
    thorough = {'examples': 120000, 'max_ops': 100, 'workers': 16}

    def enumerate(self, tier, seed, stats):
        """Bounded-exhaustive part: every word over {claim, release, open, add,
        close, reconnect} x 2 sides on one nameplate up to a length bound."""
        cfg = {"usage": True, "blur": None, "allow_list": True}
        return enumerate_words(self, cfg, ['s1', 's2'], 3 if tier == "quick" else 5,
                               8 if tier == "quick" else 16, stats, "C07")
