"""C08 - decided by the reference model (see vcheck/model.py)."""
from .modelchecks import ModelCheck
from ..seqenum import enumerate_words


class C08(ModelCheck):
    id = "C08"
    profile = "closers"
    profiles = ['closers', 'closers', 'mixed', 'shared']
    usage_mode = "any"
    nt_rule = staticmethod(lambda ev: ev.get("last_close_with_nameplate") or (ev.get("last_close") and ev.get("close_again")))
    rule = "Histories from profile closers/mixed (one or two sides over several connections, nameplate released or not before the closes, the closer holding other nameplates/mailboxes, re-sent closes on fresh connections with the mailbox present and gone, moods). After a close that leaves an open side the mailbox, messages and the other side's subscription stay; after the last open side's close the client got closed and the mailbox, its messages, side records and its nameplate are gone in the same snapshot while every other nameplate/mailbox/message is unchanged; a re-sent close is answered closed. Non-trivial = a history with a last close while a nameplate still pointed at the mailbox, or a last close plus a re-sent close; distinct by hash of (config, script)."
    level_text = "Generated-history exploration with the reference model's open-side bookkeeping as oracle, comparing the existence of every mailbox, nameplate, message and side record after every step."
    assumptions = ["single-threaded server: schedules = total orders of commands, disconnects, timer ticks and restarts",
                   "virtual clock; SQLite atomic commit; identifiers are strings",
                   "known finding R3 (same mailbox id in two apps) excluded by construction"]
    quick = {'examples': 2400, 'max_ops': 40, 'workers': 8}
    thorough = {'examples': 120000, 'max_ops': 100, 'workers': 16}

    def enumerate(self, tier, seed, stats):
        """Bounded-exhaustive part: every word over {claim, release, open, add,
        close, reconnect} x 2 sides on one nameplate up to a length bound."""
        cfg = {"usage": True, "blur": None, "allow_list": True}
        return enumerate_words(self, cfg, ['s1', 's2'], 3 if tier == "quick" else 5,
                               8 if tier == "quick" else 16, stats, "C08")
