"""C09 - a response is sent only after its effects are committed."""
from hypothesis import strategies as st

from .common import HistoryCheck, Observer
from ..runner import Violation


class CommitObserver(Observer):
    def __init__(self, world, cfg):
        Observer.__init__(self, world, cfg)
        self.checked_gen = 0
        self.frames = 0
        self.frames_after_write = 0
        self.types = {}
        self.commit_mark = world.commit_count
        world.frame_hooks.append(self.on_frame)

    def check_pragmas(self, w):
        for label in ("channel", "usage"):
            c = w.server_conn(label)
            if c is None:
                continue
            import sqlite3
            sync = sqlite3.Connection.execute(c, "PRAGMA synchronous").fetchone()
            jm = sqlite3.Connection.execute(c, "PRAGMA journal_mode").fetchone()
            sync = list(sync.values())[0] if isinstance(sync, dict) else sync[0]
            jm = list(jm.values())[0] if isinstance(jm, dict) else jm[0]
            if sync < 2:
                raise Violation("%s database connection runs with PRAGMA synchronous=%r (< FULL): a commit can be lost on power failure" % (label, sync),
                                sig="C09 synchronous below FULL")
            if str(jm).lower() in ("off", "memory"):
                raise Violation("%s database connection runs with journal_mode=%r: a crash cannot be rolled back" % (label, jm),
                                sig="C09 journal mode unsafe")

    def on_frame(self, w, cid, frame):
        if w.generation != self.checked_gen:
            self.checked_gen = w.generation
            self.check_pragmas(w)
        self.frames += 1
        t = frame.get("type")
        self.types[t] = self.types.get(t, 0) + 1
        for label in ("channel", "usage"):
            c = w.server_conn(label)
            if c is not None and c.in_transaction:
                raise Violation("frame %r sent while the %s database has an uncommitted transaction" % (_brief(frame), label),
                                sig="C09 frame sent inside a transaction (%s)" % t)
        own = w.own_snapshot()
        ind = w.snapshot()
        if own != ind:
            raise Violation("frame %r sent while the server's view of the channel database differs from what is committed: %s"
                            % (_brief(frame), _d(own, ind)), sig="C09 uncommitted channel state at frame (%s)" % t)
        if w.usage_path:
            if w.own_usnapshot() != w.usnapshot():
                raise Violation("frame %r sent while the usage database has uncommitted changes" % (_brief(frame),),
                                sig="C09 uncommitted usage state at frame (%s)" % t)
        if w.commit_count > self.commit_mark:
            self.frames_after_write += 1
        self.check_acknowledged(w, cid, frame, ind)

    def check_acknowledged(self, w, cid, frame, ind):
        """What this frame acknowledges must already be in the committed files."""
        t = frame.get("type")
        if t not in ("message", "claimed", "allocated", "released", "closed") or not w.steps:
            return
        op = w.steps[-1].op
        if op.get("op") != "send" or self.driver is None:
            return
        m = op.get("rmsg") or op.get("msg")
        sender = self.driver.tr.conns.get(op["c"])
        if sender is None or not sender.bound:
            return
        app, side = sender.app, sender.side
        what = None
        if t == "message" and m.get("type") == "add":
            want = (app, side, m.get("phase"), m.get("body"), m.get("id"))
            if frame.get("side") == side and not any((r[0], r[2], r[3], r[4], r[6]) == want for r in ind["messages"]):
                what = "the added message %r is not stored yet" % (want,)
        elif t == "claimed" and m.get("type") == "claim" and cid == op["c"]:
            mid, name = frame.get("mailbox"), m.get("nameplate")
            nps = [r for r in ind["nameplates"] if r[1] == app and r[2] == name and r[3] == mid]
            if not nps:
                what = "no committed nameplate %r -> mailbox %r" % (name, mid)
            elif not any(r[0] == nps[0][0] and r[2] == side and r[1] for r in ind["nameplate_sides"]):
                what = "the claim of side %r on %r is not committed" % (side, name)
            elif not any(r[0] == mid and r[2] == side for r in ind["mailbox_sides"]):
                what = "the mailbox side record of %r is not committed" % (side,)
        elif t == "allocated" and cid == op["c"]:
            name = frame.get("nameplate")
            nps = [r for r in ind["nameplates"] if r[1] == app and r[2] == name]
            if not nps or not any(r[0] == nps[0][0] and r[2] == side and r[1] for r in ind["nameplate_sides"]):
                what = "the allocated nameplate %r is not committed as claimed by %r" % (name, side)
        elif t == "released" and m.get("type") == "release" and cid == op["c"]:
            name = m.get("nameplate", sender.claim_np)
            for r in ind["nameplates"]:
                if r[1] == app and r[2] == name:
                    if any(s[0] == r[0] and s[2] == side and s[1] for s in ind["nameplate_sides"]):
                        what = "side %r still holds its claim on %r in the committed state" % (side, name)
        elif t == "closed" and m.get("type") == "close" and cid == op["c"]:
            mid = m.get("mailbox", sender.open_id)
            if any(r[0] == app and r[1] == mid for r in ind["mailboxes"]):
                if any(s[0] == mid and s[2] == side and s[1] for s in ind["mailbox_sides"]):
                    what = "side %r is still recorded as open on %r in the committed state" % (side, mid)
        if what:
            raise Violation("frame %r sent before its effect is committed: %s" % (_brief(frame), what),
                            sig="C09 acknowledged effect not committed (%s)" % t)

    def on_step(self, j, op, st, tr_before, gone):
        self.commit_mark = self.w.commit_count

    def finish(self):
        self.count("frames", self.frames)
        self.count("frames_after_write", self.frames_after_write)
        for t, n in self.types.items():
            self.count("frame_" + str(t), n)
        self.nt = self.frames_after_write >= 5


def _brief(f):
    return {k: v for k, v in f.items() if k in ("type", "id", "mailbox", "nameplate", "phase", "error")}


def _d(a, b):
    for t in a:
        if a[t] != b[t]:
            return "%s: server sees %r, committed %r" % (t, [r for r in a[t] if r not in b[t]][:3], [r for r in b[t] if r not in a[t]][:3])
    return ""


class C09(HistoryCheck):
    id = "C09"
    profile = "mixed"
    profiles = ["mixed", "closers", "usage", "sweeper", "crowd", "hostile"]
    rule = ("Histories from profiles mixed/closers/usage/sweeper/crowd/hostile (so that refusals - crowded, reclaimed, protocol errors - are frequent) on real database files, with and without usage DB. A monitor "
            "runs inside the outbound-frame path, i.e. at the crash point 'right after this frame': (i) neither server "
            "connection is inside a transaction; (ii) the dump of all tables through an independent read-only connection to the "
            "files equals the dump through the server's own connection, for both databases; (iii) once per service "
            "incarnation: PRAGMA synchronous >= FULL and journal_mode not off/memory on both server connections; (iv) what the "
            "frame acknowledges is already in the committed files: the message row for a `message` frame of the current add, the "
            "nameplate/claim/mailbox-side rows for `claimed`/`allocated`, the cleared claim/open flag (or deleted object) for "
            "`released`/`closed`. Non-trivial = "
            "a history with >=5 frames emitted by commands that had committed >=1 transaction; distinct by hash of (config, "
            "script); frames per type are listed under classes.")
    level = "exploration"
    level_text = ("Generated-history exploration with a crash-point monitor at every outbound frame of every history; each frame "
                  "is a crash point 'immediately after the frame' and is checked against the committed file contents.")
    level_note = ("Trusts SQLite's atomic commit and that a reader on the files sees exactly the committed state; power-loss "
                  "durability beyond synchronous=FULL/journal settings is outside any in-process technique (DESIGN section 3).")
    technique = "Hypothesis-generated histories + invariant monitor at every outbound frame (independent reader vs. server connection, in_transaction, PRAGMAs)"
    assumptions = ["a crash right after a frame leaves exactly what an independent reader sees at that moment"]
    quick = dict(examples=2400, max_ops=40, workers=8)
    thorough = dict(examples=60000, max_ops=100, workers=16)

    def make_observer(self, world, cfg):
        return CommitObserver(world, cfg)
