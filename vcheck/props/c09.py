"""C09 - a response is sent only after its effects are committed."""
from hypothesis import strategies as st

from .common import HistoryCheck, Observer
from ..runner import Violation


class CommitObserver(Observer):
    def __init__(self, world, cfg):
        Observer.__init__(self, world, cfg)
        self.checked_gen = 0
        self.frames = 0
        self.frames_after_write = 0
        self.types = {}
        self.commit_mark = world.commit_count
        world.frame_hooks.append(self.on_frame)

    def check_pragmas(self, w):
        for label in ("channel", "usage"):
            c = w.server_conn(label)
            if c is None:
                continue
            import sqlite3
            sync = sqlite3.Connection.execute(c, "PRAGMA synchronous").fetchone()
            jm = sqlite3.Connection.execute(c, "PRAGMA journal_mode").fetchone()
            sync = list(sync.values())[0] if isinstance(sync, dict) else sync[0]
            jm = list(jm.values())[0] if isinstance(jm, dict) else jm[0]
            if sync < 2:
                raise Violation("%s database connection runs with PRAGMA synchronous=%r (< FULL): a commit can be lost on power failure" % (label, sync),
                                sig="C09 synchronous below FULL")
            if str(jm).lower() in ("off", "memory"):
                raise Violation("%s database connection runs with journal_mode=%r: a crash cannot be rolled back" % (label, jm),
                                sig="C09 journal mode unsafe")

    def on_frame(self, w, cid, frame):
        if w.generation != self.checked_gen:
            self.checked_gen = w.generation
            self.check_pragmas(w)
        self.frames += 1
        t = frame.get("type")
        self.types[t] = self.types.get(t, 0) + 1
        for label in ("channel", "usage"):
            c = w.server_conn(label)
            if c is not None and c.in_transaction:
                raise Violation("frame %r sent while the %s database has an uncommitted transaction" % (_brief(frame), label),
                                sig="C09 frame sent inside a transaction (%s)" % t)
        own = w.own_snapshot()
        ind = w.snapshot()
        if own != ind:
            raise Violation("frame %r sent while the server's view of the channel database differs from what is committed: %s"
                            % (_brief(frame), _d(own, ind)), sig="C09 uncommitted channel state at frame (%s)" % t)
        if w.usage_path:
            if w.own_usnapshot() != w.usnapshot():
                raise Violation("frame %r sent while the usage database has uncommitted changes" % (_brief(frame),),
                                sig="C09 uncommitted usage state at frame (%s)" % t)
        if w.commit_count > self.commit_mark:
            self.frames_after_write += 1

    def on_step(self, j, op, st, tr_before, gone):
        self.commit_mark = self.w.commit_count

    def finish(self):
        self.count("frames", self.frames)
        self.count("frames_after_write", self.frames_after_write)
        for t, n in self.types.items():
            self.count("frame_" + str(t), n)
        self.nt = self.frames_after_write >= 5


def _brief(f):
    return {k: v for k, v in f.items() if k in ("type", "id", "mailbox", "nameplate", "phase", "error")}


def _d(a, b):
    for t in a:
        if a[t] != b[t]:
            return "%s: server sees %r, committed %r" % (t, [r for r in a[t] if r not in b[t]][:3], [r for r in b[t] if r not in a[t]][:3])
    return ""


class C09(HistoryCheck):
    id = "C09"
    profile = "mixed"
    profiles = ["mixed", "closers", "usage", "sweeper"]
    rule = ("Histories from profiles mixed/closers/usage/sweeper on real database files, with and without usage DB. A monitor "
            "runs inside the outbound-frame path, i.e. at the crash point 'right after this frame': (i) neither server "
            "connection is inside a transaction; (ii) the dump of all tables through an independent read-only connection to the "
            "files equals the dump through the server's own connection, for both databases; (iii) once per service "
            "incarnation: PRAGMA synchronous >= FULL and journal_mode not off/memory on both server connections. Non-trivial = "
            "a history with >=5 frames emitted by commands that had committed >=1 transaction; distinct by hash of (config, "
            "script); frames per type are listed under classes.")
    level = "exploration"
    level_text = ("Generated-history exploration with a crash-point monitor at every outbound frame of every history; each frame "
                  "is a crash point 'immediately after the frame' and is checked against the committed file contents.")
    level_note = ("Trusts SQLite's atomic commit and that a reader on the files sees exactly the committed state; power-loss "
                  "durability beyond synchronous=FULL/journal settings is outside any in-process technique (DESIGN section 3).")
    technique = "Hypothesis-generated histories + invariant monitor at every outbound frame (independent reader vs. server connection, in_transaction, PRAGMAs)"
    assumptions = ["a crash right after a frame leaves exactly what an independent reader sees at that moment"]
    quick = dict(examples=1200, max_ops=40, workers=8)
    thorough = dict(examples=60000, max_ops=100, workers=16)

    def make_observer(self, world, cfg):
        return CommitObserver(world, cfg)
