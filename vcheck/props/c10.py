"""C10 - any crash leaves a database the server can restart from and clean up."""
import os, shutil, tempfile

from hypothesis import strategies as st

from .diff import DiffCheck, first_diff, Obs
from ..canon import Canon, script_literals
from ..runner import Violation, Check
from ..world import World, Crash, scratch_root, EPOCH, server_tap
from ..gen import Driver, PROFILES, intents_strategy, script_hash

RESEND = ("claim", "release", "open", "close")


def _mk_driver(w, profile, sink=None):
    def on_step(j, op, stp, trb, gone):
        if sink is not None:
            sink.append(Obs(stp))
    return Driver(w, profile, on_step=on_step)


def reference_commits(wcfg, script, profile):
    script = [({kk: vv for kk, vv in o.items() if kk != "fault"} if o.get("op") == "advance" else o) for o in script]
    with World(wcfg, uid="crash") as w:
        w.commit_log = []
        base = w.commit_count
        d = _mk_driver(w, profile)
        for op in script:
            d.do(op, force=True)
        return base, list(w.commit_log)


def remake_ops(tracker_conns, cid_map, next_cid, only=None, skip=None, reopen=True):
    """Ops that re-make connections alive at the interruption: connect, bind,
    re-open if it was subscribed."""
    ops = []
    for cid in sorted(tracker_conns):
        cs = tracker_conns[cid]
        if not cs.alive or (only is not None and cid != only) or (skip is not None and cid == skip):
            continue
        n = next_cid[0]
        next_cid[0] += 1
        cid_map[cid] = n
        ops.append({"op": "connect", "c": n})
        if cs.bound:
            ops.append({"op": "send", "c": n, "msg": {"type": "bind", "appid": cs.app, "side": cs.side}})
            if cs.holds and reopen:
                ops.append({"op": "send", "c": n, "msg": {"type": "open", "mailbox": cs.open_id_raw}})
    return ops


def explicit(msg, cs):
    """The interrupted command as a reconnecting client re-sends it."""
    m = dict(msg)
    if m.get("type") == "release" and "nameplate" not in m:
        if cs.claim_np_raw is None:
            return None
        m["nameplate"] = cs.claim_np_raw
    if m.get("type") == "close" and "mailbox" not in m:
        if cs.open_id_raw is None:
            return None
        m["mailbox"] = cs.open_id_raw
    return m


def check_unique(snap, where):
    def dup(rows, what):
        seen = set()
        for r in rows:
            if r in seen:
                raise Violation("%s: duplicate %s record %r" % (where, what, r), sig="C10 duplicate %s" % what)
            seen.add(r)
    dup([(r[1], r[2]) for r in snap["nameplates"]], "nameplate")
    dup([r[1] for r in snap["mailboxes"]], "mailbox")
    dup([(r[0], r[2]) for r in snap["nameplate_sides"]], "nameplate side")
    dup([(r[0], r[2]) for r in snap["mailbox_sides"]], "mailbox side")


class C10(DiffCheck):
    id = "C10"
    level = "fault_enumeration"
    profile = "mixed"
    profiles = ["mixed", "closers", "usage", "sweeper"]
    rule = ("A history is generated online (profiles mixed/closers/usage/sweeper, with and without usage DB) on a reference "
            "service whose effective commits (commit while in a transaction, both databases) are logged per op. Crash points "
            "are commit boundaries; boundaries strictly inside a multi-commit command or sweep (claim: 2 commits, last "
            "release/close: 2-3, sweep: >=2) are preferred: quick draws 3 per history, thorough enumerates all inner boundaries "
            "of each history (plus one outer). For each boundary k the history is re-run with a simulated process death right "
            "after commit k (BaseException out of commit(); all in-memory objects discarded; connections closed without "
            "commit so SQLite rolls the open transaction back). Oracle: (1) the repo's own create_or_upgrade_* opens the files "
            "(start-up FK check) and a new service starts; (2) no duplicate (app,name), mailbox id, (nameplate,side), "
            "(mailbox,side) rows; (3) 'nobody returns' on a copy of the files: a restarted service advanced by expiration + 2 "
            "periods logs no error and ends with all five channel tables empty; (4) 'clients resume': every connection is "
            "re-made (connect, bind, re-open), the interrupted claim/release/open/close is re-sent with explicit ids, the rest "
            "of the history runs - compared, canonicalised and with timestamps, against the reference 'no crash, connections "
            "dropped and re-made, timer re-phased at the same instant': the re-sent command's answer, all later frames and the "
            "channel snapshot after every later op are equal. (5) double faults: after the first recovery the clients come back and "
            "the history continues; a second death is injected 1-3 effective commits later and (1)-(3) are checked again (quick: one "
            "per history, thorough: one per chosen boundary). Non-trivial = a (history, boundary) pair whose boundary is "
            "strictly inside a multi-commit op; distinct by hash of (config, script, boundary).")
    level_text = ("Fault enumeration over commit boundaries: for generated histories, process death is injected after chosen "
                  "(quick) or all inner (thorough) effective commits of the real service; recovery, cleanup and resumed-client "
                  "behaviour are compared with an uncrashed reference run.")
    level_note = ("Trusts SQLite's atomic commit: a process that dies leaves each database at its last completed COMMIT, so "
                  "crash points are commit boundaries (death between two statements of one transaction = death after the "
                  "previous commit). fsync ordering / power loss is outside (DESIGN section 3). Usage rows are not compared "
                  "(C15 is crash-free by its own text). Known finding R3 excluded by construction.")
    technique = "Hypothesis-generated histories x injected process death at commit boundaries (traced sqlite3 connection), recovery + differential oracle against the uncrashed reference"
    assumptions = ["crash = BaseException raised right after the k-th effective commit; later statements also raise",
                   "both databases are counted in one global commit sequence"]
    quick = dict(examples=320, max_ops=30, workers=8)
    thorough = dict(examples=6400, max_ops=60, workers=16)
    minimizable = False

    def strategy(self, tier):
        base = DiffCheck.strategy(self, tier)
        return st.tuples(base, st.lists(st.integers(0, 10 ** 6), min_size=3, max_size=3))

    def execute(self, x, stats, tier):
        (intents, cfg), picks = x
        b = self.budgets(tier)
        profile = self.make_profile(cfg)
        wcfg = {k: v for k, v in cfg.items() if k != "profile"}
        with World(wcfg) as w:
            d = Driver(w, profile, max_ops=b["max_ops"] * 2)
            d.run(intents)
            script = list(d.script)
        if not script:
            return
        base, log = reference_commits(wcfg, script, profile)
        per_op = {}
        for n, (label, opidx) in enumerate(log):
            per_op.setdefault(opidx, []).append(base + n + 1)
        inner = [k for op, ks in per_op.items() if op is not None for k in ks[:-1]]
        outer = [ks[-1] for op, ks in per_op.items() if op is not None]
        if tier == "thorough":
            chosen = list(inner)
            if outer:
                chosen += [outer[picks[0] % len(outer)], outer[picks[2] % len(outer)]]
                chosen += [ks[-1] for opi, ks in per_op.items() if opi is not None and script[opi].get("op") == "send"
                           and script[opi]["msg"].get("type") in ("release", "close")]
            chosen = sorted(set(chosen))
        else:
            pool = inner if inner else outer
            chosen = sorted(set(pool[p % len(pool)] for p in picks)) if pool else []
            if inner and outer:
                chosen.append(outer[picks[0] % len(outer)])
                chosen.append(outer[picks[2] % len(outer)])
                # the boundary after the only/last commit of a release or close: a missing final commit shows there
                last_of = [ks[-1] for opi, ks in per_op.items() if opi is not None and script[opi].get("op") == "send"
                           and script[opi]["msg"].get("type") in ("release", "close")]
                if last_of:
                    chosen.append(last_of[picks[1] % len(last_of)])
                chosen = sorted(set(chosen))
        for k in chosen:
            classes = {}
            payload = {"property": self.id, "cfg": cfg, "script": script, "boundary": k}
            try:
                nt = self.crash_case(wcfg, profile, script, k, classes, k in inner)
            except Violation as v:
                v.payload = payload
                raise
            classes["profile_" + cfg.get("profile", self.profile)] = 1
            stats.case(script_hash([cfg, script, k]), nt, classes,
                       sample={"cfg": cfg, "boundary_commit": k, "script": script})
        # double faults: a second death while the clients are coming back
        dbl = [(k, 1 + (picks[1] + i) % 3) for i, k in enumerate(chosen[:(len(chosen) if tier == "thorough" else 1)])]
        for k, d2 in dbl:
            classes = {}
            try:
                nt = self.double_fault(wcfg, profile, script, k, d2, classes)
            except Violation as v:
                v.payload = {"property": self.id, "cfg": cfg, "script": script, "boundary": k, "second_after": d2}
                raise
            stats.case(script_hash([cfg, script, k, "double", d2]), nt, classes,
                       sample={"cfg": cfg, "boundary_commit": k, "second_crash_after_commits": d2, "script": script})

    def replay(self, payload, stats):
        cfg, script, k = payload["cfg"], payload["script"], payload["boundary"]
        profile = self.make_profile(cfg)
        wcfg = {k_: v for k_, v in cfg.items() if k_ != "profile"}
        classes = {}
        if payload.get("second_after"):
            try:
                self.double_fault(wcfg, profile, script, k, payload["second_after"], classes)
            except Violation as v:
                v.payload = payload
                raise
            stats.case(script_hash([cfg, script, k, "double"]), True, classes, sample=payload)
            return
        try:
            nt = self.crash_case(wcfg, profile, script, k, classes, True)
        except Violation as v:
            v.payload = payload
            raise
        stats.case(script_hash([cfg, script, k]), nt, classes, sample={"cfg": cfg, "boundary_commit": k, "script": script})


    def recover_and_check(self, w, wcfg, where):
        """(1) restart on the files, (2) uniqueness, (3) nobody returns (on a copy)."""
        E = float(server_tap.CHANNEL_EXPIRATION_TIME)
        P = float(server_tap.EXPIRATION_CHECK_PERIOD)
        crash_t = w.vnow
        try:
            tk = w.recover_from_crash()
        except Crash:
            raise
        except Exception as e:
            raise Violation("%s: the server cannot start on the files left behind: %s: %s" % (where, type(e).__name__, e), sig="C10 cannot restart")
        if tk.errors:
            raise Violation("%s: the first expiry sweep after the restart failed: %r" % (where, tk.errors), sig="C10 sweep fails after restart")
        check_unique(w.snapshot(), where)
        d2 = tempfile.mkdtemp(prefix="vcheck-c10-", dir=scratch_root())
        try:
            for fn in os.listdir(w.dir):
                shutil.copy(os.path.join(w.dir, fn), os.path.join(d2, fn))
            w2 = World(dict(wcfg, t0=crash_t - EPOCH), keep_dir=d2)
            try:
                if w2.start_tick.errors:
                    raise Violation("%s: sweep on the recovered files failed: %r" % (where, w2.start_tick.errors), sig="C10 sweep fails after restart")
                stp = w2.advance(E + 2 * P)
                if stp.errors:
                    raise Violation("%s, nobody returns: expiry sweeps fail with %r" % (where, stp.errors), sig="C10 sweep fails after crash")
                left = {t: r for t, r in stp.after.items() if r}
                if left:
                    raise Violation("%s, nobody returns: after expiration + 2 periods the store still holds %r"
                                    % (where, {t: r[:3] for t, r in left.items()}), sig="C10 store not emptied after crash")
            finally:
                w2.close()
        finally:
            shutil.rmtree(d2, ignore_errors=True)
        return tk

    def double_fault(self, wcfg, profile, script, k, d2, classes):
        """Second process death while the clients of the first one are coming
        back: after the d2-th effective commit following the first recovery."""
        script = [({kk: vv for kk, vv in o.items() if kk != "fault"} if o.get("op") == "advance" else o) for o in script]
        with World(wcfg, uid="crash") as w:
            w.crash_after = k
            drv = _mk_driver(w, profile)
            j = None
            tr_before = None
            for i, op in enumerate(script):
                tr_before = {c: s_.clone() for c, s_ in drv.tr.conns.items()}
                drv.do(op, force=True)
                if w.crashed:
                    j = i
                    break
            if j is None:
                return False
            op = script[j]
            where1 = "crash after commit %d (inside op#%d %s)" % (k, j, _s(op))
            self.recover_and_check(w, wcfg, where1)
            w.crash_after = w.commit_count + d2
            cid_map = {}
            next_cid = [max([c for c in tr_before] + [o.get("c", 0) for o in script]) + 1000]
            ops = remake_ops(tr_before, cid_map, next_cid)
            cs_j = tr_before.get(op.get("c")) if "c" in op else None
            if op["op"] == "send" and op["msg"].get("type") in RESEND and cs_j is not None and cs_j.alive and cs_j.bound:
                m = explicit(op["msg"], cs_j)
                if m is not None:
                    ops.append({"op": "send", "c": cid_map[op["c"]], "msg": m})
            for o in script[j + 1:]:
                if "c" in o and o["c"] in cid_map and o["op"] != "connect":
                    o = dict(o, c=cid_map[o["c"]])
                ops.append(o)
            drv2 = _mk_driver(w, profile)
            drv2.ex.learned = dict(drv.ex.learned)
            second = None
            for o in ops:
                try:
                    drv2.do(o, force=True)
                except KeyError:
                    continue        # an op on a connection that no longer exists in the resumed run
                if w.crashed:
                    second = o
                    break
            if second is None:
                classes["double_fault_not_reached"] = 1
                return False
            where2 = where1 + ", then a second crash %d commit(s) after the restart (inside %s)" % (d2, _s(second))
            self.recover_and_check(w, wcfg, where2)
            classes["double_fault"] = 1
            return True

    # ------------------------------------------------------------------
    def crash_case(self, wcfg, profile, script, k, classes, is_inner):
        E = float(server_tap.CHANNEL_EXPIRATION_TIME)
        P = float(server_tap.EXPIRATION_CHECK_PERIOD)
        lits = script_literals(script)
        script = [({kk: vv for kk, vv in o.items() if kk != "fault"} if o.get("op") == "advance" else o) for o in script]
        with World(wcfg, uid="crash") as w:
            w.crash_after = k
            d = _mk_driver(w, profile)
            j = None
            tr_before = None
            for i, op in enumerate(script):
                tr_before = {c: s.clone() for c, s in d.tr.conns.items()}
                d.do(op, force=True)
                if w.crashed:
                    j = i
                    break
            if j is None:
                classes["boundary_not_reached"] = 1
                return False
            op = script[j]
            crash_t = w.vnow
            kind = op["op"] if op["op"] != "send" else op["msg"].get("type")
            classes["crash_in_" + str(kind)] = 1
            # (1) restart on the files
            try:
                tk = w.recover_from_crash()
            except Crash:
                raise
            except Exception as e:
                raise Violation("crash after commit %d (inside op#%d %s): the server cannot start on the files left behind: %s: %s"
                                % (k, j, _s(op), type(e).__name__, e), sig="C10 cannot restart")
            if tk.errors:
                raise Violation("crash after commit %d (inside op#%d %s): the first expiry sweep after the restart failed: %r"
                                % (k, j, _s(op), tk.errors), sig="C10 sweep fails after restart")
            snap = w.snapshot()
            check_unique(snap, "crash after commit %d (inside op#%d %s)" % (k, j, _s(op)))
            swept_c = set((r[0], r[1]) for r in tk.before["mailboxes"]) - set((r[0], r[1]) for r in tk.after["mailboxes"])
            # (3) nobody returns - on a copy of the files
            d2 = tempfile.mkdtemp(prefix="vcheck-c10-", dir=scratch_root())
            try:
                for fn in os.listdir(w.dir):
                    shutil.copy(os.path.join(w.dir, fn), os.path.join(d2, fn))
                cfg2 = dict(wcfg, t0=crash_t - EPOCH)
                w2 = World(cfg2, keep_dir=d2)
                try:
                    if w2.start_tick.errors:
                        raise Violation("crash after commit %d (inside op#%d %s): sweep on the recovered files failed: %r"
                                        % (k, j, _s(op), w2.start_tick.errors), sig="C10 sweep fails after restart")
                    stp = w2.advance(E + 2 * P)
                    if stp.errors:
                        raise Violation("crash after commit %d (inside op#%d %s), nobody returns: expiry sweeps fail with %r"
                                        % (k, j, _s(op), stp.errors), sig="C10 sweep fails after crash")
                    left = {t: r for t, r in stp.after.items() if r}
                    if left:
                        raise Violation("crash after commit %d (inside op#%d %s), nobody returns: after expiration + 2 periods the store still holds %r"
                                        % (k, j, _s(op), {t: r[:3] for t, r in left.items()}), sig="C10 store not emptied after crash")
                finally:
                    w2.close()
            finally:
                shutil.rmtree(d2, ignore_errors=True)
            # (4) clients resume
            cs_j = tr_before.get(op.get("c")) if "c" in op else None
            cid_map = {}
            next_cid = [max([c for c in tr_before] + [o.get("c", 0) for o in script]) + 1000]
            resend = None
            ops_remake = []
            if op["op"] == "send" and op["msg"].get("type") in RESEND and cs_j is not None and cs_j.alive and cs_j.bound:
                m = explicit(op["msg"], cs_j)
                if m is not None:
                    # the interrupted client comes back first and re-sends its command
                    ops_remake = remake_ops(tr_before, cid_map, next_cid, only=op["c"],
                                            reopen=op["msg"]["type"] not in ("close", "open"))
                    resend = {"op": "send", "c": cid_map[op["c"]], "msg": m}
            others = remake_ops(tr_before, cid_map, next_cid, skip=(op["c"] if resend else None))
            resumable = (resend is not None) or op["op"] in ("advance", "restart", "rephase")
            if not resumable:
                classes["no_resume_for_" + str(kind)] = 1
                if is_inner:
                    classes["inner_boundary"] = 1
                return bool(is_inner)
            head = ops_remake + ([resend] if resend else []) + others
            if op["op"] == "advance":
                remaining = (tr_t(w, j) + float(op["dt"])) - crash_t
                if remaining > 0:
                    head.append({"op": "advance", "dt": remaining})
            shift = len(head)
            resend_idx = (j + 1 + len(ops_remake)) if resend else None

            def fix_refs(o):
                if o.get("op") != "send":
                    return o
                m = {}
                for kk, v in o["msg"].items():
                    if isinstance(v, dict) and len(v) == 1 and next(iter(v)) in ("$mb", "$np"):
                        rk = next(iter(v))
                        ri = v[rk]
                        if ri > j:
                            v = {rk: ri + shift}
                        elif ri == j and resend_idx is not None:
                            v = {rk: resend_idx}
                    m[kk] = v
                return dict(o, msg=m)
            tail = []
            for o in script[j + 1:]:
                if "c" in o and o["c"] in cid_map and o["op"] != "connect":
                    o = dict(o, c=cid_map[o["c"]])
                tail.append(fix_refs(o))
            cont = head + tail
            crashed_obs = []
            dd = _mk_driver(w, profile, crashed_obs)
            # keep the learned references of the prefix
            dd.ex.learned = dict(d.ex.learned)
            dd.ex.results = list(d.ex.results)
            while len(dd.ex.results) <= j:
                dd.ex.results.append(None)
            dd.script = list(script[:j + 1])
            for o in cont:
                dd.do(o, force=True)
            end_snap = w.snapshot()
            check_unique(end_snap, "resumed run after crash at commit %d" % k)
        # reference: no crash, op j completes, then drop + rephase + same continuation
        ref_obs = []
        with World(wcfg, uid="crash") as r:
            rd = _mk_driver(r, profile)
            for i in range(j):
                rd.do(script[i], force=True)
            if op["op"] == "advance":
                dt1 = crash_t - r.vnow
                stj = rd.do({"op": "advance", "dt": max(0.0, dt1)}, force=True)
            else:
                stj = rd.do(op, force=True)
            orig_answer = [f for (c, f) in stj.frames if c == op.get("c") and f.get("type") not in ("ack",)] if op["op"] == "send" else []
            before_rp = set((r_[0], r_[1]) for r_ in r.snapshot()["mailboxes"])
            rp = rd.do({"op": "rephase"}, force=True)
            swept_r = before_rp - set((r_[0], r_[1]) for r_ in rp.after["mailboxes"])
            if swept_r != swept_c:
                # the sweep that a restart runs at once met a channel that was
                # already past its expiration time when the interrupted command
                # arrived: command-then-sweep (reference) and sweep-then-command
                # (crashed run) are both legitimate orders; no verdict
                classes["resume_skipped_expiry_race"] = 1
                if is_inner:
                    classes["inner_boundary"] = 1
                return bool(is_inner)
            rd2 = _mk_driver(r, profile, ref_obs)
            rd2.ex.learned = dict(rd.ex.learned)
            rd2.ex.results = list(rd.ex.results)
            while len(rd2.ex.results) <= j:
                rd2.ex.results.append(None)
            rd2.ex.results = rd2.ex.results[:j + 1]
            rd2.script = list(script[:j + 1])
            for o in cont:
                rd2.do(o, force=True)
        ca, cb = Canon(lits), Canon(lits)
        n_remake = len(ops_remake)
        n_head = len(head)
        for i, (oa, ob) in enumerate(zip(crashed_obs, ref_obs)):
            fa = [(c, ca.frame(f)) for c, f in oa.frames]
            fb = [(c, cb.frame(f)) for c, f in ob.frames]
            what = "re-made connections" if i < n_remake else ("re-sent %s" % _s(cont[i]) if (resend and i == n_remake) else "later op %s" % _s(cont[i]))
            if fa != fb:
                raise Violation("crash after commit %d (inside op#%d %s), clients resume: frames of %s differ from the uncrashed reference: %s"
                                % (k, j, _s(op), what, first_diff(fa, fb)), sig="C10 resumed frames differ")
            if i >= n_head - 1:
                # stored state is compared once every client is back (the
                # statement speaks of the state the resumed clients *reach*)
                for (ta, sa, ua), (tb, sb, ub) in zip(oa.ticks, ob.ticks):
                    x, y = ca.snapshot(sa), cb.snapshot(sb)
                    if x != y:
                        raise Violation("crash after commit %d (inside op#%d %s), clients resume: rows after the sweep at %r differ from the uncrashed reference: %s"
                                        % (k, j, _s(op), ta, first_diff(x, y)), sig="C10 resumed tick rows differ")
                x, y = ca.snapshot(oa.snap), cb.snapshot(ob.snap)
                if x != y:
                    raise Violation("crash after commit %d (inside op#%d %s), clients resume: stored rows after %s differ from the uncrashed reference: %s"
                                    % (k, j, _s(op), what, first_diff(x, y)), sig="C10 resumed rows differ")
            if oa.errors:
                raise Violation("crash after commit %d (inside op#%d %s), clients resume: internal error at %s: %r"
                                % (k, j, _s(op), what, oa.errors), sig="C10 internal error after crash")
        if resend is not None and len(crashed_obs) > n_remake:
            got = [ca.frame(f) for (c, f) in crashed_obs[n_remake].frames if f.get("type") != "ack"]
            c0 = Canon(lits)
            c0.map = dict(cb.map)
            want = [c0.frame(f) for f in orig_answer]

            def norm(fs):
                # `orig` echoes the command, which the reconnecting client writes with explicit ids
                msgs = sorted((repr(sorted(f.items())) for f in fs if f.get("type") == "message"))
                return [{kk: vv for kk, vv in f.items() if kk != "orig"} for f in fs if f.get("type") != "message"], msgs
            if norm(got) != norm(want):
                raise Violation("crash after commit %d (inside op#%d %s): the re-sent command was answered %r, without the crash it was answered %r"
                                % (k, j, _s(op), got, want), sig="C10 re-sent answer differs")
            classes["resent_" + op["msg"]["type"]] = 1
        if is_inner:
            classes["inner_boundary"] = 1
        return bool(is_inner)


def tr_t(w, j):
    return w.steps[j].t if j < len(w.steps) else w.vnow


def _s(op):
    if op.get("op") == "send":
        return "c%s %s" % (op["c"], op["msg"])
    return str(op)
