"""C11 - restarting the server is invisible to reconnecting clients."""
from .diff import DiffCheck, run_script, frames_by_conn, first_diff
from ..canon import Canon, script_literals
from ..runner import Violation


class C11(DiffCheck):
    id = "C11"
    profile = "restarts"
    profiles = ["restarts"]
    level = "exploration"
    rule = ("A history is generated online (profile restarts: flows over 2 apps, sweeps weighted up around the reconnection "
            "points) in which every restart position is written as `rephase`. Run A executes it as written: at each position all "
            "connections are dropped and only the TimerService of the *same* service object is stopped and started (so both runs "
            "have identical sweep schedules). Run B replaces every rephase by a real restart (service rebuilt from the database "
            "files). From the first position on, the canonical per-connection frame streams, the channel snapshot after every "
            "op and after every timer tick, the usage records and the status row (minus `rebooted`) must be equal. Non-trivial = "
            "a restart position with >=1 live nameplate and >=1 stored message, followed by >=1 sweep and >=1 client command; "
            "distinct by hash of (config, script).")
    level_text = ("Differential exploration: the same generated history is executed on the real service with the server object "
                  "kept and with the service rebuilt from the database files; any behaviour keyed on in-memory state shows up as a "
                  "difference in later answers or stored rows.")
    level_note = ("Trusts Hypothesis, SQLite, Twisted's TimerService on MemoryReactorClock. Generated mailbox ids and rowids are "
                  "canonicalised (bijection-invariant); live subscriptions are outside the property (clients re-open). "
                  "Known finding R3 excluded by construction.")
    technique = "Hypothesis-generated histories + differential oracle (kept server object vs. service rebuilt from files), canonicalised frames/rows, script-level ddmin"
    assumptions = ["both runs see the same virtual clock and timer phase", "clients re-establish subscriptions by bind+open"]
    quick = dict(examples=1000, max_ops=40, workers=8)
    thorough = dict(examples=50000, max_ops=100, workers=16)

    def judge(self, cfg, script, classes):
        pts = [i for i, op in enumerate(script) if op["op"] == "rephase"]
        if not pts:
            return False
        p = pts[0]
        wcfg = {k: v for k, v in cfg.items() if k != "profile"}
        a = run_script(wcfg, script, uid="runA")
        b = run_script(wcfg, [({"op": "restart"} if op["op"] == "rephase" else op) for op in script], uid="runB")
        lits = script_literals(script)
        ca, cb = Canon(lits), Canon(lits)
        fa = frames_by_conn(a, ca, start=p)
        fb = frames_by_conn(b, cb, start=p)
        if fa != fb:
            raise Violation("frames after the restart point (op#%d) differ between kept server and rebuilt service: %s"
                            % (p, first_diff(fa, fb)), sig="C11 frames differ")
        nt_pts = [q for q in pts if q > 0 and a[q - 1].snap["nameplates"] and a[q - 1].snap["messages"]]
        nt_state = bool(nt_pts)
        q0 = nt_pts[0] if nt_pts else len(script)
        sweeps_after = 0
        cmds_after = 0
        for i in range(p, len(script)):
            oa, ob = a[i], b[i]
            for (ta, sa, ua), (tb, sb, ub) in zip(oa.ticks, ob.ticks):
                if ca.snapshot(sa) != cb.snapshot(sb):
                    raise Violation("op#%d: channel rows after the timer tick at %r differ: %s"
                                    % (i, ta, first_diff(ca.snapshot(sa), cb.snapshot(sb))), sig="C11 tick rows differ")
                if ua is not None and [r[1:] for r in ua["current"]] != [r[1:] for r in ub["current"]]:
                    raise Violation("op#%d: status row after the tick at %r differs: %r vs %r" % (i, ta, ua["current"], ub["current"]),
                                    sig="C11 status differs")
            if len(oa.ticks) != len(ob.ticks):
                raise Violation("op#%d: %d timer ticks vs %d" % (i, len(oa.ticks), len(ob.ticks)), sig="C11 tick count")
            if i > q0 and script[i]["op"] == "advance":
                sweeps_after += len(oa.ticks)
            if i > q0 and script[i]["op"] == "send" and script[i]["msg"].get("type") != "bind":
                cmds_after += 1
            sa, sb = ca.snapshot(oa.snap), cb.snapshot(ob.snap)
            if sa != sb:
                raise Violation("op#%d %s: channel rows differ between kept server and rebuilt service: %s"
                                % (i, script[i], first_diff(sa, sb)), sig="C11 rows differ")
            ua, ub = ca.usage(oa.usnap), cb.usage(ob.usnap)
            if ua != ub:
                raise Violation("op#%d %s: usage records differ: %s" % (i, script[i], first_diff(ua, ub)), sig="C11 usage differs")
            if oa.errors != ob.errors:
                raise Violation("op#%d %s: internal errors differ: %r vs %r" % (i, script[i], oa.errors, ob.errors), sig="C11 errors differ")
        classes["restart_points"] = len(pts)
        classes["sweeps_after_restart"] = sweeps_after
        nt = nt_state and sweeps_after >= 1 and cmds_after >= 1
        if nt_state:
            classes["restart_with_live_state"] = 1
        return nt
