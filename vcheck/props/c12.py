"""C12 - decided by the reference model (see vcheck/model.py)."""
from .modelchecks import ModelCheck


class C12(ModelCheck):
    id = "C12"
    profile = "clock"
    profiles = ['clock', 'clock', 'mixed']
    usage_mode = "any"
    nt_rule = staticmethod(lambda ev: ev.get("sweep_deleted_and_kept") or ev.get("subscriber_survived_3_sweeps"))
    rule = 'Histories from profile clock/mixed (several mailboxes/apps side by side, activity at boundary distances from sweep instants: dt from {0,.25,1,59.5,60,299,300,301,359,360,361,659,660,661,900} and arbitrary floats, connections subscribed across sweeps, drops shortly before sweeps, restarts re-phasing the timer); sweeps happen only through the real TimerService. For every mailbox deleted at sweep instant s the model must show no subscriber and no successful claim/allocate/open/add (or sweep-while-subscribed) at t with s-t < expiration-0.001; nameplates/messages/side rows deleted at s must belong to mailboxes deleted at s. Non-trivial = a history with a sweep that deleted one mailbox and kept another, or a subscriber that survived >=3 sweeps; distinct by hash of (config, script).'
    level_text = "Generated-history exploration over timer schedules driven through the real service timer on a virtual clock; one-directional safety oracle from the model's lower bound of last activity and its subscription sets (constants read from server_tap at run time)."
    assumptions = ["single-threaded server: schedules = total orders of commands, disconnects, timer ticks and restarts",
                   "virtual clock; SQLite atomic commit; identifiers are strings",
                   "known finding R3 (same mailbox id in two apps) excluded by construction"]
    quick = {'examples': 2400, 'max_ops': 40, 'workers': 8}
    thorough = {'examples': 120000, 'max_ops': 100, 'workers': 16}

    def enumerate(self, tier, seed, stats):
        from ..timeenum import enumerate_timelines
        cfg = {"usage": True, "blur": None, "allow_list": True}
        return enumerate_timelines(self, cfg, 3 if tier == "quick" else 5, 8 if tier == "quick" else 16, stats)
