"""C13 - idle channels are swept completely; the store returns to empty."""
from hypothesis import strategies as st

from .modelchecks import ModelCheck
from ..model import ModelObserver
from ..runner import Violation


class SweepObserver(ModelObserver):
    def finish(self):
        d = self.driver
        E, P = self.E, self.P
        had = dict(self.ev)
        for cs in list(d.tr.live()):
            d.do({"op": "drop", "c": cs.cid}, force=True)
        d.do({"op": "advance", "dt": E + P + 1.0}, force=True)
        snap = self.w.snapshot()
        left = {t: rows for t, rows in snap.items() if rows}
        if left:
            raise Violation("quiescence: %.0fs after every client left, the channel database still holds %r"
                            % (E + P + 1.0, {t: rows[:3] for t, rows in left.items()}), sig="quiescence: rows left")
        self.note("quiescent_histories")
        if had.get("adds") and (had.get("last_close") or had.get("close_not_last")):
            self.note("quiescent_after_adds_and_closes")
        if had.get("faulted_sweeps") and self.ev.get("sweeps", 0) > had.get("sweeps", 0):
            self.note("faulted_then_successful_sweep")


class C13(ModelCheck):
    id = "C13"
    profile = "sweeper"
    profiles = ["sweeper", "sweeper", "mixed", "closers", "shared"]
    usage_mode = "any"
    rule = ("Histories from profiles sweeper/mixed/closers (any apps, sides, connections, reopen-after-close, crowding, errors; "
            "advance ops in which the first database access of a sweep is made to fail with a transient OperationalError), "
            "followed by the epilogue: every client disconnects and the clock advances expiration + one period + 1s. Oracle: "
            "(liveness) a mailbox with no subscriber whose last touch (any command addressing it or its nameplate, or a sweep "
            "while subscribed) is older than the expiration time at a non-faulted sweep must be gone after it, with messages, "
            "side records and nameplate; (timer) consecutive sweeps are exactly one period apart, none is missing, also after a "
            "faulted one, non-faulted sweeps log no error; (quiescence) all five channel tables are empty at the end. "
            "Non-trivial = quiescence reached from a history that had adds and closes with >=1 sweep deleting a mailbox, or a "
            "faulted sweep followed by a successful one; distinct by hash of (config, script).")
    level_text = ("Generated-history exploration plus injected transient faults at the first database access of chosen sweeps, "
                  "driven through the real TimerService on a virtual clock; bounded-liveness oracle from the model's upper "
                  "bound of last touch, and an end-of-history emptiness check through an independent reader.")
    assumptions = ["transient fault = sqlite3.OperationalError('database is locked') raised by the first statement of the sweep",
                   "virtual clock; real TimerService/LoopingCall on MemoryReactorClock",
                   "known finding R3 excluded by construction"]
    quick = dict(examples=2000, max_ops=40, workers=8)
    thorough = dict(examples=100000, max_ops=100, workers=16)

    @staticmethod
    def nt_rule(ev):
        return (ev.get("quiescent_after_adds_and_closes") and ev.get("sweeps_deleting")) or ev.get("faulted_then_successful_sweep")

    def make_observer(self, world, cfg):
        obs = SweepObserver(world, cfg, self.id)
        obs.nontrivial = lambda: bool(C13.nt_rule(obs.ev))
        return obs

    def enumerate(self, tier, seed, stats):
        from ..timeenum import enumerate_timelines
        cfg = {"usage": True, "blur": None, "allow_list": True}
        return enumerate_timelines(self, cfg, 3 if tier == "quick" else 5, 8 if tier == "quick" else 16, stats)
