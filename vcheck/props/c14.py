"""C14 - re-sending an acknowledged command is harmless."""
from .diff import DiffCheck, run_script, frames_by_conn, first_diff
from ..canon import Canon, script_literals
from ..runner import Violation


def _answer(obs, cid):
    fs = [f for (c, f) in obs.frames if c == cid and f.get("type") != "ack"]
    msgs = sorted(((f.get("side"), f.get("phase"), f.get("body"), f.get("id")) for f in fs if f.get("type") == "message"), key=repr)
    rest = [{k: v for k, v in f.items() if k not in ("server_tx", "orig")} for f in fs if f.get("type") != "message"]
    return rest, msgs


class C14(DiffCheck):
    id = "C14"
    profile = "dups"
    profiles = ["dups"]
    rule = ("A history is generated online (profile dups); at generated points a connection issues a claim/release/open/close "
            "that is valid in its state and, when it is answered successfully, a fresh connection of the same side connects, "
            "binds, re-sends the same command (explicit nameplate/mailbox) at the same virtual instant and drops. H1 = the "
            "history as generated, H0 = the same with every re-sent command replaced by a ping on the throw-away connection. "
            "Oracle: the duplicate's answer equals the original's (claimed same id / released / closed / same replay multiset); "
            "all frames of all other connections and the channel snapshot (timestamps included) after every later op and timer "
            "tick are equal in H1 and H0. Non-trivial = a duplicate issued while a second side, a nameplate pointing at the "
            "mailbox, or an already deleted mailbox was involved, followed by >=1 later command; distinct by hash of (config, script).")
    level_text = ("Metamorphic exploration: the real service runs each generated history with and without the duplicated command; "
                  "answers, later frames and stored rows (timestamps included) must agree.")
    level_note = ("Trusts Hypothesis, SQLite, Twisted's clock. Both runs use the same deterministic id source, and ids are "
                  "canonicalised anyway. Usage rows are not compared (the statement speaks of the stored channel state). "
                  "Known finding R3 excluded by construction.")
    technique = "Hypothesis-generated histories + metamorphic oracle (history with vs. without the re-sent command), script-level ddmin"
    assumptions = ["the duplicate arrives at the same virtual instant as the original", "add and allocate are outside the property"]
    quick = dict(examples=1200, max_ops=40, workers=8)
    thorough = dict(examples=60000, max_ops=100, workers=16)

    def judge(self, cfg, script, classes):
        dups = [i for i, op in enumerate(script) if "dup_of" in op
                and i >= 2 and script[i - 1].get("c") == op["c"] and script[i - 1].get("msg", {}).get("type") == "bind"
                and script[i - 2] == {"op": "connect", "c": op["c"]} and op["dup_of"] < i - 2
                and script[op["dup_of"]].get("msg") == op["msg"]]
        if not dups:
            return False
        wcfg = {k: v for k, v in cfg.items() if k != "profile"}
        h1 = run_script(wcfg, script, uid="dup")
        s0 = [({"op": "send", "c": op["c"], "msg": {"type": "ping", "ping": 0}} if i in dups else op) for i, op in enumerate(script)]
        h0 = run_script(wcfg, s0, uid="dup")
        nt = False
        for i in dups:
            j = script[i]["dup_of"]
            orig = _answer(h1[j], script[j]["c"])
            dup = _answer(h1[i], script[i]["c"])
            if orig != dup:
                raise Violation("op#%d re-sends op#%d %s: answer %r differs from the original answer %r"
                                % (i, j, script[j]["msg"], dup, orig), sig="C14 duplicate answer differs (%s)" % script[j]["msg"].get("type"))
            t = script[j]["msg"]["type"]
            classes["dup_" + t] = classes.get("dup_" + t, 0) + 1
            snap = h1[j].snap
            before = h1[j - 1].snap if j > 0 else None
            interesting = False
            if any(len([s for s in snap["mailbox_sides"] if s[0] == m[1]]) >= 2 for m in snap["mailboxes"]):
                interesting = True
            if t == "close" and snap["nameplates"]:
                interesting = True
            if t == "close" and before is not None and len(before["mailboxes"]) > len(snap["mailboxes"]):
                interesting = True
                classes["dup_close_of_deleted"] = classes.get("dup_close_of_deleted", 0) + 1
            later = any(op["op"] == "send" and "dup_of" not in op and op["msg"].get("type") not in ("bind", "ping") for op in script[i + 2:])
            if interesting and later:
                nt = True
        lits = script_literals(script)
        c1, c0 = Canon(lits), Canon(lits)
        throw = set(script[i]["c"] for i in dups)
        keep = set(op["c"] for op in script if "c" in op) - throw
        f1 = frames_by_conn(h1, c1, start=0, conns=keep)
        f0 = frames_by_conn(h0, c0, start=0, conns=keep)
        if f1 != f0:
            raise Violation("frames of the original connections differ between the history with and without the duplicate(s): %s"
                            % first_diff(f1, f0), sig="C14 frames differ")
        for i in range(dups[0], len(script)):
            o1, o0 = h1[i], h0[i]
            for (ta, sa, ua), (tb, sb, ub) in zip(o1.ticks, o0.ticks):
                x, y = c1.snapshot(sa), c0.snapshot(sb)
                if x != y:
                    raise Violation("op#%d: channel rows after the timer tick at %r differ with/without the duplicate: %s"
                                    % (i, ta, first_diff(x, y)), sig="C14 tick rows differ")
            x, y = c1.snapshot(o1.snap), c0.snapshot(o0.snap)
            if x != y:
                raise Violation("op#%d %s: channel rows differ with/without the duplicate (op#%s): %s"
                                % (i, script[i], [d for d in dups if d <= i][-1], first_diff(x, y)), sig="C14 rows differ")
        return nt

    def enumerate(self, tier, seed, stats):
        from ..seqenum import enumerate_dups
        cfg = {"usage": False, "blur": None, "allow_list": True}
        return enumerate_dups(cfg, ["s1", "s2"] if tier == "quick" else ["s1", "s2", "s3"], 3, 8 if tier == "quick" else 16, stats)
