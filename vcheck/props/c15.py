"""C15 - decided by the reference model (see vcheck/model.py)."""
from .modelchecks import ModelCheck


class C15(ModelCheck):
    id = "C15"
    profile = "usage"
    profiles = ['usage', 'usage', 'mixed', 'closers']
    usage_mode = "on"
    nt_rule = staticmethod(lambda ev: sum(v for k, v in ev.items() if k.startswith("retired_")) >= 3 and len([k for k in ev if k.startswith("retired_")]) >= 2)
    rule = "Crash-free histories with a usage database from profiles usage/mixed/closers (moods from {absent,happy,lonely,scary,errory,weird}, 1-4 sides, retirement by last release, last close, deletion with the mailbox, expiry). At each retirement the model predicts one record (app, for_nameplate, started, waiting=t2-t1|NULL, total=t_retire-t1, result by precedence crowded > pruney > scary > errory > lonely > happy/lonely-by-sides); after every op the multiset of new usage rows must equal the predictions (record of an incarnation that lives only inside one command is optional); after every timer tick the status row reports the model's number of subscribed connections. Non-trivial = a history with >=3 retirements by >=2 different paths; distinct by hash of (config, script)."
    level_text = 'Generated-history exploration with a reference model of arrival times and moods predicting every usage record; complemented by an exhaustive enumeration of the classification grid through the protocol (sides 1-4 x moods x close/expiry).'
    assumptions = ["single-threaded server: schedules = total orders of commands, disconnects, timer ticks and restarts",
                   "virtual clock; SQLite atomic commit; identifiers are strings",
                   "known finding R3 (same mailbox id in two apps) excluded by construction"]
    quick = {'examples': 2400, 'max_ops': 40, 'workers': 8}
    thorough = {'examples': 120000, 'max_ops': 100, 'workers': 16}

    def enumerate(self, tier, seed, stats):
        """Exhaustive classification grid through the protocol: number of
        sides 1-4 x mood of each side x {standalone, nameplate} x {retired by
        close, by expiry}; arrival times are all different."""
        import itertools, multiprocessing
        from ..gen import MOODS
        jobs = []
        for n in (1, 2, 3, 4):
            for moods in itertools.product(range(len(MOODS)), repeat=n):
                if tier == "quick" and n == 4 and sum(moods) % 4:
                    continue        # quick: a quarter of the 4-side grid
                for via_np in (False, True):
                    for how in ("close", "expiry"):
                        jobs.append((n, moods, via_np, how))
        chunk = max(20, len(jobs) // 64)
        parts = [jobs[i:i + chunk] for i in range(0, len(jobs), chunk)]
        ctx = multiprocessing.get_context("fork")
        with ctx.Pool(8 if tier == "quick" else 16) as pool:
            results = pool.map(_grid_chunk, parts, chunksize=1)
        total = 0
        from ..runner import Violation
        for r in results:
            if r[0] == "violation":
                raise Violation("classification grid: " + r[1], r[2], sig=r[3])
            total += r[1]
            for k, v in r[2].items():
                stats.count("grid_" + k, v)
        stats.evaluations += total
        for i in range(total):
            stats.nontrivial.add("grid-%d" % i)
        if len(stats.samples) <= stats.max_samples:
            stats.samples.append({"grid_point": {"sides": 3, "moods": ["scary", None, "happy"], "via_nameplate": True, "retired_by": "expiry"}})
        return {"grid_points": total, "exhaustive": tier != "quick",
                "exhaustive_scope": "sides 1-4 x 6 moods per side x {standalone, nameplate} x {close, expiry} driven through the protocol (quick: a quarter of the 4-side points); a crowded mailbox cannot be retired by close - those points end by expiry after the closes"}


def _grid_script(n, moods, via_np, how):
    from ..gen import MOODS
    script = []
    sides = ["s1", "s2", "s3", "s4"][:n]
    for i, s in enumerate(sides):
        script.append({"op": "connect", "c": i})
        script.append({"op": "send", "c": i, "msg": {"type": "bind", "appid": "A", "side": s}})
        if via_np:
            script.append({"op": "send", "c": i, "msg": {"type": "claim", "nameplate": "1"}})
            if i < 2:
                script.append({"op": "send", "c": i, "msg": {"type": "open", "mailbox": {"$mb": 2}}})
        else:
            script.append({"op": "send", "c": i, "msg": {"type": "open", "mailbox": "m-grid"}})
        script.append({"op": "advance", "dt": 3.0 + i})
    for i, s in enumerate(sides):
        if how == "expiry" and i == 0:
            continue            # the first side never closes: retired by expiry
        msg = {"type": "close", "mailbox": ({"$mb": 2} if via_np else "m-grid")}
        if MOODS[moods[i]] is not None:
            msg["mood"] = MOODS[moods[i]]
        if via_np and i < 2:
            script.append({"op": "send", "c": i, "msg": {"type": "release"}})
        script.append({"op": "send", "c": i, "msg": msg})
        script.append({"op": "advance", "dt": 1.5})
    for i in range(n):
        script.append({"op": "drop", "c": i})
    script.append({"op": "advance", "dt": 1300.0})
    return script


def _grid_chunk(jobs):
    import warnings
    warnings.simplefilter("ignore")
    from ..world import World
    from ..gen import Driver, PROFILES
    from ..model import ModelObserver
    from ..runner import Violation
    n_ok = 0
    ev = {}
    for (n, moods, via_np, how) in jobs:
        cfg = {"usage": True, "blur": None, "allow_list": True}
        script = _grid_script(n, moods, via_np, how)
        with World(cfg) as w:
            obs = ModelObserver(w, cfg, "C15")
            d = Driver(w, PROFILES["usage"], on_step=obs.on_step)
            obs.driver = d
            try:
                for op in script:
                    d.do(op, force=True)
            except Violation as v:
                return ("violation", "sides=%d moods=%r via_nameplate=%s retired_by=%s: %s" % (n, moods, via_np, how, v.msg),
                        {"property": "C15", "cfg": dict(cfg, profile="usage"), "script": script}, v.sig)
            if obs.abandoned or obs.desynced:
                return ("violation", "grid point sides=%d moods=%r: model lost track (%s)" % (n, moods, obs.desynced or "abandoned"),
                        {"property": "C15", "cfg": dict(cfg, profile="usage"), "script": script}, "C15 grid: model lost track")
            for k, v in obs.ev.items():
                if k.startswith("usage_record_"):
                    ev[k] = ev.get(k, 0) + v
        n_ok += 1
    return ("ok", n_ok, ev)
