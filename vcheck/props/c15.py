"""C15 - decided by the reference model (see vcheck/model.py)."""
from .modelchecks import ModelCheck


class C15(ModelCheck):
    id = "C15"
    profile = "usage"
    profiles = ['usage', 'usage', 'mixed', 'closers']
    usage_mode = "on"
    nt_rule = staticmethod(lambda ev: sum(v for k, v in ev.items() if k.startswith("retired_")) >= 3 and len([k for k in ev if k.startswith("retired_")]) >= 2)
    rule = "Crash-free histories with a usage database from profiles usage/mixed/closers (moods from {absent,happy,lonely,scary,errory,weird}, 1-4 sides, retirement by last release, last close, deletion with the mailbox, expiry). At each retirement the model predicts one record (app, for_nameplate, started, waiting=t2-t1|NULL, total=t_retire-t1, result by precedence crowded > pruney > scary > errory > lonely > happy/lonely-by-sides); after every op the multiset of new usage rows must equal the predictions (record of an incarnation that lives only inside one command is optional); after every timer tick the status row reports the model's number of subscribed connections. Non-trivial = a history with >=3 retirements by >=2 different paths; distinct by hash of (config, script)."
    level_text = 'Generated-history exploration with a reference model of arrival times and moods predicting every usage record; complemented by an exhaustive enumeration of the classification grid through the protocol (sides 1-4 x moods x close/expiry).'
    assumptions = ["single-threaded server: schedules = total orders of commands, disconnects, timer ticks and restarts",
                   "virtual clock; SQLite atomic commit; identifiers are strings",
                   "known finding R3 (same mailbox id in two apps) excluded by construction"]
    quick = {'examples': 2400, 'max_ops': 40, 'workers': 8}
    thorough = {'examples': 120000, 'max_ops': 100, 'workers': 16}
