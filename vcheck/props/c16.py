"""C16 - blurred usage timestamps never reveal exact client times."""
from hypothesis import strategies as st

from .modelchecks import ModelCheck
from ..model import ModelObserver

PATHS = ("bind", "nameplate-release", "nameplate-with-mailbox-close", "nameplate-with-mailbox-expiry",
         "mailbox-close", "mailbox-expiry")


class C16(ModelCheck):
    id = "C16"
    profile = "blurry"
    profiles = ["blurry", "blurry", "usage"]
    usage_mode = "on"
    rule = ("Histories with a usage database from profiles blurry/usage; blur interval drawn from integers [1, 86400] biased to "
            "{1,7,13,60,61,3600,86400}; the virtual epoch gets a drawn real-valued offset so that arrival times have arbitrary "
            "residues; every record-writing path (bind with/without client_version, last release, last close, nameplate deleted "
            "with its mailbox, expiry). For every new usage row, with the model's true arrival time t: started mod blur == 0 "
            "and 0 <= t - started < blur (same for client_versions.connect_time against the bind's receive time). Non-trivial "
            "= a history that wrote rows on >=3 different paths whose true time was not itself a multiple of the interval; "
            "distinct by hash of (config, script). Rows per path are listed under classes (usage_time_* / blur_nontrivial_*).")
    level_text = ("Generated-input exploration over blur intervals, real-valued arrival times and record-writing paths, with the "
                  "reference model supplying the true arrival time of every record; exact floor/multiple oracle.")
    assumptions = ["true times are the virtual clock readings at command receipt", "crash-free histories"]
    quick = dict(examples=3000, max_ops=36, workers=8)
    thorough = dict(examples=100000, max_ops=80, workers=16)

    @staticmethod
    def nt_rule(ev):
        return len([p for p in PATHS if ev.get("blur_nontrivial_" + p)]) >= 3

    def cfg_strategy(self):
        blur = st.one_of(st.sampled_from([1, 7, 13, 60, 61, 3600, 86400]), st.integers(1, 86400))
        return st.fixed_dictionaries({
            "usage": st.just(True),
            "blur": blur,
            "allow_list": st.just(True),
            "t0": st.one_of(st.sampled_from([0.0, 0.5, 59.75, 3599.75]),
                            st.floats(0, 200000, allow_nan=False).map(lambda x: round(x * 4) / 4.0),
                            st.floats(0, 200000, allow_nan=False)),
        })
