"""C17 - protocol discipline: welcome, acks, harmless errors, once-only commands."""
from hypothesis import strategies as st

from .common import HistoryCheck, Observer
from ..script import classify, MUST_ERROR, OK, EITHER

BENIGN = ("crowded", "reclaimed")


class ProtocolObserver(Observer):
    def __init__(self, world, cfg):
        Observer.__init__(self, world, cfg)
        self.kinds = set()
        self.err_conns = {}     # cid -> set of listed-error kinds seen
        self.later_ok = False
        exp = {}
        if cfg.get("motd") is not None:
            exp["motd"] = cfg["motd"]
        if cfg.get("advertise"):
            exp["current_cli_version"] = cfg["advertise"]
        if cfg.get("signal_error"):
            exp["error"] = cfg["signal_error"]
        self.expected_welcome = exp

    def check_frame_shape(self, st, fr):
        if not isinstance(fr.get("type"), str):
            self.fail("frame without string type: %r" % (fr,))
        tx = fr.get("server_tx")
        if isinstance(tx, bool) or not isinstance(tx, (int, float)):
            self.fail("frame without numeric server_tx: %r" % (fr,))
        if abs(tx - st.t) > 0.01:
            self.fail("server_tx %r is not the send time %r: %r" % (tx, st.t, fr))

    def on_step(self, j, op, st, tr_before, gone):
        kind = op["op"]
        for cid, fr in st.frames:
            self.check_frame_shape(st, fr)
        for tk in st.ticks:
            if tk.frames:
                self.fail("op#%d: frames sent by a timer tick: %r" % (j, tk.frames))
        if kind == "connect":
            fs = [f for (c, f) in st.frames if c == op["c"]]
            if len(fs) != 1 or fs[0].get("type") != "welcome":
                self.fail("op#%d connect: first frame is not a single welcome: %r" % (j, fs))
            if fs[0].get("welcome") != self.expected_welcome:
                self.fail("op#%d connect: welcome %r != configured notices %r" % (j, fs[0].get("welcome"), self.expected_welcome))
            if st.errors:
                self.fail("op#%d connect: internal error %r" % (j, st.errors))
            self.count("welcomes")
            return
        if kind in ("drop", "advance", "restart", "rephase", "fill"):
            if kind in ("drop",) and st.errors:
                self.fail("op#%d %s: internal error %r" % (j, kind, st.errors))
            if kind == "drop" and st.frames:
                self.fail("op#%d drop: frames sent on disconnect %r" % (j, st.frames))
            return
        if kind != "send":
            return
        cid = op["c"]
        msg = st.op["rmsg"]
        cs = tr_before[cid]
        verdict, ckind = classify(cs, msg)
        fs = [f for (c, f) in st.frames if c == cid]
        others = [(c, f) for (c, f) in st.frames if c != cid]
        where = "op#%d %s on c%d (%s)" % (j, msg, cid, ckind)
        if st.errors:
            self.fail("%s: handler failed internally: %r" % (where, st.errors))
        # ack first
        rest = fs
        if "type" in msg:
            if not fs or fs[0].get("type") != "ack":
                self.fail("%s: first frame is not an ack: %r" % (where, fs[:2]))
            if fs[0].get("id") != msg.get("id"):
                self.fail("%s: ack id %r != command id %r" % (where, fs[0].get("id"), msg.get("id")))
            rest = fs[1:]
            if any(f.get("type") == "ack" for f in rest):
                self.fail("%s: more than one ack" % where)
        elif any(f.get("type") == "ack" for f in fs):
            self.fail("%s: ack for a command without type" % where)
        errs = [f for f in rest if f.get("type") == "error"]
        for e in errs:
            if e.get("orig") != msg:
                self.fail("%s: error frame does not contain the original message: %r" % (where, e))
            if not isinstance(e.get("error"), str):
                self.fail("%s: error frame without error string: %r" % (where, e))
        if len(errs) > 1:
            self.fail("%s: more than one error frame: %r" % (where, errs))
        unchanged = (st.before == st.after and st.ubefore == st.uafter)
        if verdict == MUST_ERROR:
            self.count("listed_errors")
            self.kinds.add(ckind)
            if len(errs) != 1 or len(rest) != 1:
                self.fail("%s: expected exactly one error frame after the ack, got %r" % (where, rest))
            if others:
                self.fail("%s: erroneous command caused frames on other connections: %r" % (where, others))
            if not unchanged:
                self.fail("%s: erroneous command changed stored state:\n before=%r\n after=%r"
                          % (where, _diff(st.before, st.after), _diff(st.after, st.before)))
            self.err_conns.setdefault(cid, set()).add(ckind)
            return
        if errs:
            txt = errs[0].get("error")
            if verdict == OK:
                allowed = ()
                t = msg.get("type")
                if t in ("claim",):
                    allowed = ("crowded", "reclaimed")
                elif t in ("open", "close"):
                    allowed = ("crowded",)
                if txt not in allowed:
                    self.fail("%s: well-formed, in-order command answered with error %r" % (where, txt))
                self.count("benign_errors")
            else:
                if txt not in BENIGN and not unchanged:
                    self.fail("%s: refused command changed stored state" % where)
                self.count("unspecified_refused")
            if len(rest) != 1:
                self.fail("%s: error accompanied by other frames: %r" % (where, rest))
        else:
            if verdict == EITHER:
                self.count("unspecified_accepted")
            t = msg.get("type")
            if t == "ping":
                if len(rest) != 1 or rest[0].get("type") != "pong" or rest[0].get("pong") != msg.get("ping"):
                    self.fail("%s: ping not answered by one pong with the same value: %r" % (where, rest))
                if not cs.bound:
                    self.count("ping_before_bind")
                if not unchanged or others:
                    self.fail("%s: ping changed state or reached other connections" % where)
            elif t == "bind":
                if rest or others:
                    self.fail("%s: bind answered with frames %r" % (where, rest))
            else:
                want = {"list": "nameplates", "allocate": "allocated", "claim": "claimed",
                        "release": "released", "close": "closed"}.get(t)
                if want is not None:
                    got = [f.get("type") for f in rest if f.get("type") != "message"]
                    if got != [want]:
                        self.fail("%s: expected one %r answer, got %r" % (where, want, rest))
                if t in ("open", "add") and any(f.get("type") != "message" for f in rest):
                    self.fail("%s: unexpected frames %r" % (where, rest))
                if t in ("claim", "allocate", "release", "open", "add", "close") and cid in self.err_conns \
                        and len(self.err_conns[cid]) >= 1 and st.before != st.after:
                    self.later_ok = True

    def finish(self):
        # every connection must still be usable: ping -> pong
        d = self.driver
        for cs in list(d.tr.live()):
            d.do({"op": "send", "c": cs.cid, "msg": {"type": "ping", "ping": ["probe", cs.cid]}}, force=True)
        self.count("error_kinds", 0)
        self.nt = len(self.kinds) >= 3 and self.later_ok
        for k in self.kinds:
            self.count("kind_" + k)


def _diff(a, b):
    out = {}
    for t in a:
        extra = [r for r in a[t] if r not in b[t]]
        if extra:
            out[t] = extra
    return out


class C17(HistoryCheck):
    id = "C17"
    profile = "hostile"
    profiles = ["hostile", "hostile", "hostile_crowd", "mixed", "closers", "shared"]
    rule = ("Hypothesis draws intent lists (profile 'hostile': malformed, out-of-order, decorated and "
            "Unicode commands interleaved with valid traffic over several connections/apps, welcome options "
            "drawn per world); every frame of every command is checked against the protocol-discipline oracle. "
            "Non-trivial = a history with >=3 different kinds of listed errors and a later successful "
            "state-changing command on a connection that had been answered with a listed error; distinct by hash "
            "of (config, concrete script).")
    assumptions = ["autobahn callback boundary is the system boundary (onOpen/onMessage/onClose)",
                   "identifiers are strings; extra keys and ping payloads are arbitrary finite JSON",
                   "known finding R3 (same mailbox id in two apps) excluded by construction"]
    level_text = ("Generated-history exploration: every frame of every command in thousands of generated multi-connection "
                  "histories (malformed, out-of-order, decorated, Unicode and valid commands interleaved) is checked against a "
                  "protocol-discipline oracle written from the property statement; no proof of absence.")
    level_note = ("Trusts Hypothesis, CPython sqlite3, Twisted's MemoryReactorClock; system boundary is the autobahn callback "
                  "boundary (onOpen/onMessage/onClose); identifiers are strings. Known finding R3 (same mailbox id in two apps) "
                  "is excluded by construction until C06 claims it.")
    technique = "Hypothesis-generated command histories + protocol-discipline oracle (state-machine model of per-connection flags), script-level ddmin"
    quick = dict(examples=4000, max_ops=40, workers=8)
    thorough = dict(examples=160000, max_ops=100, workers=16)

    def cfg_strategy(self):
        return st.fixed_dictionaries({
            "usage": st.booleans(),
            "blur": st.sampled_from([None, 60]),
            "allow_list": st.booleans(),
            "motd": st.sampled_from([None, "hello", ""]),
            "advertise": st.sampled_from([None, "1.2.3"]),
            "signal_error": st.sampled_from([None, None, "go away"]),
        })

    def make_observer(self, world, cfg):
        return ProtocolObserver(world, cfg)
