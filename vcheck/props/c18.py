"""C18 - listing and usage options change nothing but what they advertise."""
from .diff import DiffCheck, run_script, first_diff
from .c06 import conn_apps
from ..canon import Canon, script_literals
from ..runner import Violation

CONFIGS = [
    dict(allow_list=True, usage=False, blur=None),
    dict(allow_list=False, usage=False, blur=None),
    dict(allow_list=True, usage=True, blur=None),
    dict(allow_list=False, usage=True, blur=None),
    dict(allow_list=True, usage=True, blur=7),
    dict(allow_list=False, usage=True, blur=3600),
    dict(allow_list=True, usage=False, blur=3600),
    dict(allow_list=False, usage=False, blur=7),
]


class C18(DiffCheck):
    id = "C18"
    profile = "mixed"
    profiles = ["options", "options", "mixed", "holders", "usage"]
    rule = ("A history is generated online under the default configuration (profiles options/mixed/holders/usage, with list and allocate commands weighted up) "
            "and then executed under 8 configurations {listing allowed, disallowed} x {no usage DB, usage DB} x {no blur, "
            "blur 7, blur 3600}. Oracle (differential): after removing `nameplates` answers, the canonical frame streams of "
            "every connection and the channel snapshot after every op and timer tick are equal in all 8 worlds. Oracle (list): "
            "allowed -> the answer is exactly the set of nameplates stored for the caller's app, each once; disallowed -> []. "
            "Non-trivial = a history with >=1 allocate while other names are held, >=1 retirement and >=1 list; distinct by "
            "hash of script.")
    level_text = ("Differential exploration across configurations on the real service: one generated history, eight worlds, "
                  "frames and channel rows compared after every step.")
    level_note = ("Trusts Hypothesis, SQLite, Twisted's clock; mailbox ids canonicalised; the history is generated under the "
                  "default configuration and replayed verbatim elsewhere (late-bound references resolve per world). Known "
                  "finding R3 excluded by construction.")
    technique = "Hypothesis-generated histories + differential oracle across 8 configurations + exact list-answer oracle, script-level ddmin"
    assumptions = ["allocation outcome is a generated input (random shim), identical in all worlds"]
    quick = dict(examples=480, max_ops=40, workers=8)
    thorough = dict(examples=16000, max_ops=100, workers=16)

    def cfg_strategy(self):
        from hypothesis import strategies as st
        return st.just({"usage": False, "blur": None, "allow_list": True})

    def judge(self, cfg, script, classes):
        lits = script_literals(script)
        capps = conn_apps(script)
        runs = []
        for c in CONFIGS:
            runs.append(run_script(c, script, uid="cfg"))
        canons = [Canon(lits) for _ in CONFIGS]
        lists = allocs_with_names = retire = 0
        for i, op in enumerate(script):
            ref = None
            for w, (c, run, cn) in enumerate(zip(CONFIGS, runs, canons)):
                o = run[i]
                frames = []
                for cid, f in o.frames:
                    if f.get("type") == "nameplates":
                        ids = [x.get("id") for x in f.get("nameplates", [])] if isinstance(f.get("nameplates"), list) else None
                        prev = run[i - 1].snap if i > 0 else None
                        live = sorted(r[2] for r in prev["nameplates"] if r[1] == capps.get(cid)) if prev else []
                        if c["allow_list"]:
                            if ids is None or sorted(ids, key=repr) != sorted(live, key=repr):
                                raise Violation("op#%d list under %r: answer %r != stored nameplates %r of the caller's app"
                                                % (i, c, ids, live), sig="C18 list answer wrong")
                        elif ids != []:
                            raise Violation("op#%d list under %r (listing disallowed): answer %r is not empty" % (i, c, ids),
                                            sig="C18 list not empty")
                        f = dict(f, nameplates="<list>")
                        if w == 0:
                            lists += 1
                    frames.append((cid, cn.frame(f)))
                ticks = [cn.snapshot(s) for (t, s, u) in o.ticks]
                obs = (frames, ticks, cn.snapshot(o.snap), [e.split(" @ ")[0] for e in o.errors])
                if ref is None:
                    ref = obs
                elif obs != ref:
                    raise Violation("op#%d %s: observations under %r differ from those under %r: %s"
                                    % (i, op, c, CONFIGS[0], first_diff(ref, obs)), sig="C18 configs differ")
            if op.get("op") == "send" and op["msg"].get("type") == "allocate" and i > 0 and runs[0][i - 1].snap["nameplates"]:
                allocs_with_names += 1
            if i > 0 and len(runs[0][i].snap["nameplates"]) < len(runs[0][i - 1].snap["nameplates"]):
                retire += 1
        classes["lists"] = lists
        classes["allocs_with_names_held"] = allocs_with_names
        classes["retirements"] = retire
        return bool(lists and allocs_with_names and retire)
