"""C19 - database files are created atomically and never clobbered."""
import os, sys, json, shutil, sqlite3, tempfile, multiprocessing

from hypothesis import strategies as st

from ..runner import Check, Violation, jhash
from .. import dbfault

class _Targets(dict):
    """Current schema versions, read from the repository at run time."""
    def __missing__(self, name):
        from wormhole_mailbox_server import database
        v = {"channel": database.CHANNELDB_TARGET_VERSION, "usage": database.USAGEDB_TARGET_VERSION}[name]
        self[name] = v
        return v


TARGETS = _Targets()


def _db():
    from wormhole_mailbox_server import database
    return database


def scratch():
    for d in ("/dev/shm", tempfile.gettempdir()):
        if os.path.isdir(d) and os.access(d, os.W_OK):
            return tempfile.mkdtemp(prefix="vcheck-db-", dir=d)
    return tempfile.mkdtemp(prefix="vcheck-db-")


_REF = {}


def ref_schema(name):
    if name not in _REF:
        d = scratch()
        try:
            p = os.path.join(d, "ref.sqlite")
            database = _db()
            c = (database.create_channel_db if name == "channel" else database.create_usage_db)(p)
            c.close()
            _REF[name] = dbfault.schema_of(p)
        finally:
            shutil.rmtree(d, ignore_errors=True)
    return _REF[name]


def check_complete(path, name, where):
    try:
        c = sqlite3.connect("file:%s?mode=ro" % path, uri=True)
        try:
            rows = c.execute("SELECT version FROM version").fetchall()
        finally:
            c.close()
    except sqlite3.Error as e:
        raise Violation("%s: the file at the target path is not a complete database: %s" % (where, e), sig="C19 incomplete database at target path")
    if rows != [(TARGETS[name],)]:
        raise Violation("%s: version table holds %r, expected exactly [(%d,)]" % (where, rows, TARGETS[name]), sig="C19 wrong version rows")
    sch = dbfault.schema_of(path)
    if sch != ref_schema(name):
        raise Violation("%s: schema at the target path differs from a freshly created %s database: %r" % (where, name, [x for x in ref_schema(name) if x not in sch][:3]),
                        sig="C19 incomplete schema at target path")


ENTRY = {
    "create_or_upgrade_channel_db": "channel",
    "create_or_upgrade_usage_db": "usage",
    "create_channel_db": "channel",
    "create_usage_db": "usage",
}


def _crash_job(args):
    """One crash point of first-time creation.  Returns (ok, message, info)."""
    entry, k = args
    import warnings
    warnings.simplefilter("ignore")
    name = ENTRY[entry]
    d = scratch()
    try:
        path = os.path.join(d, "db.sqlite")
        log = os.path.join(d, "events.log")
        database = _db()
        status, events = dbfault.run_child(lambda: getattr(database, entry)(path), k, log)
        if os.path.exists(log):
            os.unlink(log)
        if status != "crashed":
            return ("harness", "crash point %d of %s: child status %s" % (k, entry, status), None)
        at = events[-1] if events else "?"
        where = "%s interrupted at event #%d (%s)" % (entry, k, at)
        existed = os.path.exists(path)
        try:
            if existed:
                check_complete(path, name, where)
            listing = sorted(os.listdir(d))
            # the next start must succeed and yield a complete database
            log2 = os.path.join(d, "events2.log")
            nxt = "create_or_upgrade_channel_db" if name == "channel" else "create_or_upgrade_usage_db"
            status2, _ = dbfault.run_child(lambda: getattr(database, nxt)(path).close(), None, log2)
            if os.path.exists(log2):
                os.unlink(log2)
            if status2 != "done":
                raise Violation("%s: the next start fails: %s (directory held %r)" % (where, status2, listing), sig="C19 next start fails after interrupted creation")
            check_complete(path, name, where + ", after the next start")
        except Violation as v:
            return ("violation", v.msg, {"entry": entry, "crash_event": k, "at": at, "sig": v.sig})
        between = False
        names = [e for e in events]
        if any(e == "mkstemp:after" for e in names) and not any(e == "rename:after" for e in names):
            between = True
        return ("ok", at, {"between": between, "existed": existed})
    finally:
        shutil.rmtree(d, ignore_errors=True)


# ---------------------------------------------------------------- inputs
val = st.one_of(st.none(), st.integers(-2 ** 63, 2 ** 63 - 1), st.text(max_size=8), st.floats(allow_nan=False, allow_infinity=False, width=32))
ident = st.text(min_size=1, max_size=6)


@st.composite
def channel_rows(draw):
    mbs = draw(st.lists(st.tuples(ident, ident, val, st.sampled_from([0, 1])), max_size=4, unique_by=lambda r: r[1]))
    nps = []
    for i in range(draw(st.integers(0, 3))):
        if mbs:
            mb = mbs[draw(st.integers(0, len(mbs) - 1))]
            nps.append((mb[0], draw(ident), mb[1]))
    msgs = draw(st.lists(st.tuples(ident, ident, ident, val, val, val, val), max_size=4))
    return {"mailboxes": mbs, "nameplates": nps, "messages": msgs,
            "mb_sides": [(mb[1], draw(st.booleans()), draw(ident), draw(val), draw(val)) for mb in mbs[:2]],
            "np_sides": draw(st.integers(0, 2))}


@st.composite
def usage_rows(draw):
    return {"nameplates": draw(st.lists(st.tuples(val, val, val, val, val), max_size=5)),
            "mailboxes": draw(st.lists(st.tuples(val, val, val, val, val, val), max_size=5)),
            "current": draw(st.lists(st.tuples(val, val, val, val), max_size=2)),
            "client_versions": draw(st.lists(st.tuples(val, val, val, val, val), max_size=4))}


def build_db(path, name, version, rows, schema_version=None, fk_violation=False, version_rows=1):
    database = _db()
    schema = database.get_schema(name, schema_version or TARGETS[name])
    c = sqlite3.connect(path)
    c.executescript(schema)
    for _ in range(version_rows):
        c.execute("INSERT INTO version (version) VALUES (?)", (version,))
    if name == "channel":
        for r in rows.get("mailboxes", []):
            c.execute("INSERT INTO mailboxes (app_id, id, updated, for_nameplate) VALUES (?,?,?,?)", r)
        ids = []
        for r in rows.get("nameplates", []):
            ids.append(c.execute("INSERT INTO nameplates (app_id, name, mailbox_id) VALUES (?,?,?)", r).lastrowid)
        for i, npid in enumerate(ids[:rows.get("np_sides", 0)]):
            c.execute("INSERT INTO nameplate_sides (nameplates_id, claimed, side, added) VALUES (?,?,?,?)", (npid, i % 2, "s%d" % i, i))
        for r in rows.get("mb_sides", []):
            c.execute("INSERT INTO mailbox_sides (mailbox_id, opened, side, added, mood) VALUES (?,?,?,?,?)", r)
        for r in rows.get("messages", []):
            c.execute("INSERT INTO messages (app_id, mailbox_id, side, phase, body, server_rx, msg_id) VALUES (?,?,?,?,?,?,?)", r)
        if fk_violation:
            c.execute("INSERT INTO nameplates (app_id, name, mailbox_id) VALUES ('a','dangling','no-such-mailbox')")
    else:
        for r in rows.get("nameplates", []):
            c.execute("INSERT INTO nameplates (app_id, started, waiting_time, total_time, result) VALUES (?,?,?,?,?)", r)
        for r in rows.get("mailboxes", []):
            c.execute("INSERT INTO mailboxes (app_id, for_nameplate, started, total_time, waiting_time, result) VALUES (?,?,?,?,?,?)", r)
        for r in rows.get("current", []):
            c.execute("INSERT INTO current (rebooted, updated, blur_time, connections_websocket) VALUES (?,?,?,?)", r)
        if (schema_version or TARGETS[name]) >= 2:
            for r in rows.get("client_versions", []):
                c.execute("INSERT INTO client_versions (app_id, side, connect_time, implementation, version) VALUES (?,?,?,?,?)", r)
    c.commit()
    c.close()


case_strategy = st.one_of(
    st.tuples(st.just("empty")),
    st.tuples(st.just("random"), st.binary(min_size=1, max_size=4096)),
    st.tuples(st.just("magic"), st.binary(max_size=2048)),
    st.tuples(st.just("truncated"), st.sampled_from(["channel", "usage"]), st.integers(1, 10 ** 6)),
    st.tuples(st.just("valid"), st.just("channel"), st.sampled_from([0, 0, 0, 1, 2, 4, 2 ** 31]), channel_rows()),
    st.tuples(st.just("valid"), st.just("usage"), st.sampled_from([0, 0, 0, 1, 2, 3, 2 ** 31]), usage_rows()),
    st.tuples(st.just("fkviolation"), channel_rows()),
    st.tuples(st.just("noversionrow"), st.sampled_from(["channel", "usage"])),
    st.tuples(st.just("missing")),
)
entry_strategy = st.sampled_from(["create_or_upgrade", "create_or_upgrade", "create_or_upgrade", "create_only", "open_existing"])


def listing(d):
    out = {}
    for fn in sorted(os.listdir(d)):
        with open(os.path.join(d, fn), "rb") as f:
            out[fn] = f.read()
    return out


def run_input_case(case, entry):
    """Returns (class label, nontrivial)."""
    database = _db()
    kind = case[0]
    d = scratch()
    try:
        path = os.path.join(d, "db.sqlite")
        name = "channel"
        expect = None      # "reject", "keep", "any"
        if kind == "empty":
            open(path, "wb").close()
            expect = "reject"
        elif kind == "random":
            with open(path, "wb") as f:
                f.write(case[1])
            expect = "reject" if not case[1].startswith(b"SQLite format 3\x00") else "any"
        elif kind == "magic":
            with open(path, "wb") as f:
                f.write(b"SQLite format 3\x00" + case[1])
            expect = "reject_if_raises"
        elif kind == "truncated":
            name = case[1]
            build_db(path, name, TARGETS[name], {})
            size = os.path.getsize(path)
            cut = case[2] % size
            with open(path, "rb") as f:
                data = f.read()
            with open(path, "wb") as f:
                f.write(data[:cut])
            expect = "reject_if_raises" if cut else "reject"
        elif kind == "valid":
            name, version, rows = case[1], case[2], case[3]
            version = TARGETS[name] + version if version < 2 ** 31 else version      # offset from the current version
            build_db(path, name, version, rows)
            expect = "keep" if version == TARGETS[name] else "reject"
        elif kind == "fkviolation":
            build_db(path, "channel", 1, case[1], fk_violation=True)
            expect = "reject"
        elif kind == "noversionrow":
            name = case[1]
            build_db(path, name, TARGETS[name], {}, version_rows=0)
            expect = "reject"
        elif kind == "missing":
            expect = "missing"
        before = listing(d)
        rows_before = dbfault.dump_rows(path) if expect == "keep" else None
        label = "%s/%s" % (kind, entry)
        where = "%s on a path holding %s" % (entry, _describe(case))
        if entry == "create_only":
            fn = database.create_channel_db if name == "channel" else database.create_usage_db
            if kind == "missing":
                _create_on_empty_path(fn, path, name, where)
                return label, False
            try:
                c = fn(path)
            except database.DBAlreadyExists:
                pass
            except BaseException as e:
                raise Violation("%s: raised %s instead of DBAlreadyExists" % (where, type(e).__name__), sig="C19 create-only wrong error")
            else:
                c.close()
                raise Violation("%s: did not refuse the existing file" % where, sig="C19 create-only touched an existing file")
            now = listing(d)
            if any(now.get(f) != before[f] for f in before):
                raise Violation("%s: the existing file was modified" % where, sig="C19 create-only modified an existing file")
            return label, kind in ("valid", "magic", "truncated")
        if entry == "open_existing":
            if kind == "missing":
                try:
                    database.open_existing_db(path)
                except database.DBDoesntExist:
                    pass
                except BaseException as e:
                    raise Violation("%s: raised %s instead of DBDoesntExist" % (where, type(e).__name__), sig="C19 open-only wrong error")
                else:
                    raise Violation("%s: did not raise DBDoesntExist" % where, sig="C19 open-only accepted a missing file")
                if os.path.exists(path):
                    raise Violation("%s: a file was created at the path: %r" % (where, sorted(listing(d))), sig="C19 open-only created a file")
                return label, True
            try:
                c = database.open_existing_db(path)
                c.close()
            except BaseException:
                pass
            return label, False
        fn = database.create_or_upgrade_channel_db if name == "channel" else database.create_or_upgrade_usage_db
        if kind == "missing":
            _create_on_empty_path(fn, path, name, where)
            return label, False
        raised = None
        try:
            c = fn(path)
            c.close()
        except BaseException as e:
            raised = e
        after = listing(d)
        if expect == "keep":
            if raised is not None:
                raise Violation("%s: a current-version database was rejected: %s: %s" % (where, type(raised).__name__, raised), sig="C19 current-version database rejected")
            rows_after = dbfault.dump_rows(path)
            if rows_after != rows_before:
                raise Violation("%s: contents changed: %r" % (where, _rowdiff(rows_before, rows_after)), sig="C19 contents of current-version database changed")
            return label, any(len(v) for v in rows_before.values())
        if expect == "reject" and raised is None:
            raise Violation("%s: was accepted, expected an error" % where, sig="C19 bad file accepted")
        if raised is not None:
            if after.get("db.sqlite") != before.get("db.sqlite"):
                raise Violation("%s: rejected with %s but the file's bytes changed" % (where, type(raised).__name__), sig="C19 rejected file modified")
            # (SQLite may leave -wal/-shm/-journal sidecars next to a file whose
            # header announces WAL mode; the statement only demands that the
            # file itself is byte-for-byte unchanged, so new entries are not judged)
            changed = [f for f in before if f != "db.sqlite" and after.get(f) != before[f]]
            if changed:
                raise Violation("%s: rejected, but other files %r were modified" % (where, changed), sig="C19 rejection modified other files")
            return label, kind in ("valid", "magic", "truncated", "fkviolation", "noversionrow")
        return label, False
    finally:
        shutil.rmtree(d, ignore_errors=True)


def _create_on_empty_path(fn, path, name, where):
    try:
        c = fn(path)
        c.close()
    except BaseException as e:
        raise Violation("%s: starting on a path with no database failed: %s: %s" % (where, type(e).__name__, e),
                        sig="C19 creation on an empty path fails")
    check_complete(path, name, where)


def _describe(case):
    k = case[0]
    if k == "random":
        return "%d random bytes" % len(case[1])
    if k == "magic":
        return "the SQLite magic followed by %d junk bytes" % len(case[1])
    if k == "truncated":
        return "a truncated %s database (cut %% size = %d)" % (case[1], case[2])
    if k == "valid":
        return "a valid %s database with version %r and rows %r" % (case[1], case[2], {t: (len(v) if hasattr(v, "__len__") else v) for t, v in case[3].items()})
    return k


def _rowdiff(a, b):
    return {t: (a.get(t), b.get(t)) for t in set(a) | set(b) if a.get(t) != b.get(t)}


class C19(Check):
    id = "C19"
    level = "fault_enumeration"
    rule = ("(a) Exhaustive crash points of first-time creation for the four creating entry points (create_or_upgrade_* and "
            "create_* for the channel and usage schemas): the call runs in a forked child; an event counter covers "
            "tempfile.mkstemp, os.close, sqlite3.connect, every SQL statement seen by the connection's trace callback (each "
            "statement of the schema script, the version insert, pragmas), commit, close and os.rename, before and after; the "
            "child os._exit()s at event k - every k is tried. After each: either nothing exists at the target path or a complete "
            "database of the right version whose schema equals a fresh one; the next create_or_upgrade_* succeeds and yields a "
            "complete database; stray temp files are allowed. (b) Hypothesis inputs for pre-existing content: empty file, random "
            "bytes, SQLite magic + junk, a valid database truncated at an arbitrary offset, valid databases of either schema with "
            "arbitrary rows and version in {current, current+1..current+4, 2^31}, a database with a foreign-key violation, a database without "
            "version row, a missing path; each against create_or_upgrade_*, create-only and open-only entry points. Oracle: "
            "current version -> opens and every row is retained; non-database / newer version -> an exception and identical bytes "
            "of the file (and of every other pre-existing file); create-only on an existing path -> DBAlreadyExists, bytes unchanged; open-only on a missing "
            "path -> DBDoesntExist, nothing created. Non-trivial = crash points between mkstemp and rename, and rejected/kept "
            "inputs that carry a valid SQLite header; distinct by crash point / by hash of the input.")
    level_text = ("Fault enumeration: every crash point (file-system call or SQL statement, before/after) of first-time database "
                  "creation is executed with a real process death (fork + os._exit) for all four entry points; plus generated "
                  "pre-existing file contents against every entry point with byte-for-byte and row-for-row oracles.")
    level_note = ("Trusts the OS's rename atomicity and SQLite's handling of a dead writer's temp file; crash granularity is the "
                  "set of traced events (calls made by database.py and statements executed by SQLite), not individual write(2) "
                  "calls inside SQLite; power loss/fsync ordering is outside.")
    technique = "exhaustive crash-point enumeration (fork + os._exit at every traced file-system call / SQL statement) + Hypothesis-generated file contents with byte/row oracles"
    assumptions = ["a killed process leaves the files exactly as they are at the crash event", "stray temporary files next to the target are allowed"]
    quick = dict(examples=6000, workers=8)
    thorough = dict(examples=200000, workers=16)

    def strategy(self, tier):
        return st.tuples(case_strategy, entry_strategy)

    def execute(self, x, stats, tier):
        case, entry = x
        try:
            label, nt = run_input_case(case, entry)
        except Violation as v:
            v.payload = {"property": self.id, "kind": "input", "case": _enc(case), "entry": entry}
            raise
        stats.case(jhash([_enc(case), entry]), nt, {"input_" + label: 1}, sample={"input": _describe(case), "entry_point": entry})

    def replay(self, payload, stats):
        if payload.get("kind") == "crash":
            r = _crash_job((payload["entry"], payload["crash_event"]))
            if r[0] == "violation":
                raise Violation(r[1], payload)
            stats.case(jhash(payload), True, {}, sample=payload)
            return
        case = _dec(payload["case"])
        try:
            label, nt = run_input_case(case, payload["entry"])
        except Violation as v:
            v.payload = payload
            raise
        stats.case(jhash(payload), nt, {}, sample={"input": _describe(case), "entry_point": payload["entry"]})

    def enumerate(self, tier, seed, stats):
        database = _db()
        jobs = []
        counts = {}
        for entry in ENTRY:
            d = scratch()
            try:
                path = os.path.join(d, "db.sqlite")
                status, events = dbfault.run_child(lambda: getattr(database, entry)(path), None, os.path.join(d, "ev.log"))
                if status != "done":
                    raise Violation("uninterrupted first-time creation via %s fails: %s" % (entry, status),
                                    {"property": self.id, "kind": "crash", "entry": entry, "crash_event": 10 ** 9}, sig="C19 creation on an empty path fails")
                counts[entry] = len(events)
                jobs += [(entry, k) for k in range(len(events))]
            finally:
                shutil.rmtree(d, ignore_errors=True)
        ctx = multiprocessing.get_context("fork")
        with ctx.Pool(8 if tier == "quick" else 16) as pool:
            results = pool.map(_crash_job, jobs, chunksize=4)
        between = 0
        for job, (kind, msg, info) in zip(jobs, results):
            if kind == "harness":
                raise RuntimeError(msg)
            if kind == "violation":
                raise Violation(msg, {"property": self.id, "kind": "crash", "entry": job[0], "crash_event": job[1], "at": info.get("at")}, sig=info.get("sig"))
            stats.evaluations += 1
            stats.count("crash_points")
            if info["between"]:
                between += 1
                stats.nontrivial.add("crash-%s-%d" % job)
            if info["existed"]:
                stats.count("crash_points_with_database_present")
        if len(stats.samples) <= stats.max_samples:
            stats.samples.append({"crash_point": "create_or_upgrade_channel_db interrupted at event #k for every k", "events": counts})
        return {"crash_points": len(jobs), "crash_points_between_mkstemp_and_rename": between,
                "events_per_entry_point": counts, "exhaustive": True,
                "exhaustive_scope": "every traced event (before/after each file-system call, every SQL statement) of first-time creation, all four creating entry points; the generated file contents are sampled, not exhaustive"}


def _enc(case):
    out = []
    for x in case:
        if isinstance(x, bytes):
            out.append({"$bytes": x.hex()})
        else:
            out.append(x)
    return json.loads(json.dumps(out, default=repr))


def _dec(case):
    out = []
    for x in case:
        if isinstance(x, dict) and "$bytes" in x:
            out.append(bytes.fromhex(x["$bytes"]))
        elif isinstance(x, dict):
            out.append({k: [tuple(r) if isinstance(r, list) else r for r in v] if isinstance(v, list) else v for k, v in x.items()})
        else:
            out.append(x)
    return tuple(out)
