"""C20 - schema upgrade keeps every usage record and can be retried."""
import os, json, shutil, sqlite3, multiprocessing

from hypothesis import strategies as st

from ..runner import Check, Violation, jhash
from .. import dbfault
from .c19 import scratch, ref_schema, usage_rows, build_db, _db

OLD_TABLES = ("nameplates", "mailboxes", "current")


def make_v1(path, rows):
    build_db(path, "usage", 1, rows, schema_version=1)


def check_upgraded(path, before_rows, before_bytes, where, need_backup=True):
    try:
        c = sqlite3.connect("file:%s?mode=ro" % path, uri=True)
        try:
            ver = c.execute("SELECT version FROM version").fetchall()
        finally:
            c.close()
    except sqlite3.Error as e:
        raise Violation("%s: the database cannot be read: %s" % (where, e), sig="C20 upgraded database unreadable")
    from .c19 import TARGETS
    if ver != [(TARGETS["usage"],)]:
        raise Violation("%s: version table holds %r, expected [(%d,)]" % (where, ver, TARGETS["usage"]), sig="C20 wrong version after upgrade")
    sch = dbfault.schema_of(path)
    if sch != ref_schema("usage"):
        raise Violation("%s: upgraded schema differs from a freshly created database: missing %r, unexpected %r"
                        % (where, [x for x in ref_schema("usage") if x not in sch][:3], [x for x in sch if x not in ref_schema("usage")][:3]),
                        sig="C20 upgraded schema differs from fresh")
    after = dbfault.dump_rows(path, OLD_TABLES)
    if after != before_rows:
        raise Violation("%s: pre-existing records changed: %r" % (where, {t: (before_rows.get(t), after.get(t)) for t in OLD_TABLES if before_rows.get(t) != after.get(t)}),
                        sig="C20 records lost or changed by the upgrade")
    if need_backup:
        # the statement asks for a byte-identical copy "next to" the file; its name is the implementation's choice
        d = os.path.dirname(path)
        others = [fn for fn in sorted(os.listdir(d)) if os.path.join(d, fn) != path and os.path.isfile(os.path.join(d, fn))
                  and not fn.endswith((".log", "-journal", "-wal", "-shm"))]
        sizes = {}
        for fn in others:
            with open(os.path.join(d, fn), "rb") as f:
                data = f.read()
            if data == before_bytes:
                break
            sizes[fn] = len(data)
        else:
            if not others:
                raise Violation("%s: no backup copy of the old file next to it" % (where,), sig="C20 backup missing")
            raise Violation("%s: no file next to the database is a byte-identical copy of the pre-upgrade file (%d bytes); found %r"
                            % (where, len(before_bytes), sizes), sig="C20 backup not byte-identical")


def _upgrade_case(args):
    """rows, list of crash events (0, 1 or 2 faults).  Returns (kind, msg, info)."""
    rows, faults = args
    import warnings
    warnings.simplefilter("ignore")
    database = _db()
    d = scratch()
    try:
        path = os.path.join(d, "usage.sqlite")
        make_v1(path, rows)
        with open(path, "rb") as f:
            before_bytes = f.read()
        before_rows = dbfault.dump_rows(path, OLD_TABLES)
        log = os.path.join(d, "ev.log")
        ats = []
        try:
            for k in faults:
                status, events = dbfault.run_child(lambda: database.create_or_upgrade_usage_db(path).close(), k, log)
                if status == "done":
                    break       # fewer events on this attempt: upgrade completed
                if status != "crashed":
                    raise Violation("upgrade attempt (after interruptions at %r) fails: %s" % (ats, status),
                                    sig="C20 restart after interrupted upgrade fails")
                ats.append("#%d %s" % (k, events[-1] if events else "?"))
                # no record may be lost at any point
                try:
                    now_rows = dbfault.dump_rows(path, OLD_TABLES)
                except sqlite3.Error as e:
                    raise Violation("after interruption at %r the database cannot be read: %s" % (ats, e), sig="C20 database unreadable after interruption")
                if now_rows != before_rows:
                    raise Violation("after interruption at %r records are lost/changed" % (ats,), sig="C20 records lost by interrupted upgrade")
            status, events = dbfault.run_child(lambda: database.create_or_upgrade_usage_db(path).close(), None, log)
            where = "upgrade of a v1 usage database" + (" interrupted at %s, then started again" % " and ".join(ats) if ats else "")
            if status != "done":
                raise Violation("%s: the start fails: %s" % (where, status), sig="C20 restart after interrupted upgrade fails")
            check_upgraded(path, before_rows, before_bytes, where)
        except Violation as v:
            return ("violation", v.msg, {"sig": v.sig, "ats": ats})
        after_first_stmt = any("sql CREATE TABLE" in a or "sql CREATE INDEX" in a or "sql DELETE" in a or "sql INSERT" in a or "commit" in a for a in ats)
        return ("ok", "", {"ats": ats, "after_first_stmt": after_first_stmt, "nrows": sum(len(v) for v in before_rows.values())})
    finally:
        shutil.rmtree(d, ignore_errors=True)


def count_events(rows):
    database = _db()
    d = scratch()
    try:
        path = os.path.join(d, "usage.sqlite")
        make_v1(path, rows)
        status, events = dbfault.run_child(lambda: database.create_or_upgrade_usage_db(path).close(), None, os.path.join(d, "ev.log"))
        if status != "done":
            raise RuntimeError("uninterrupted upgrade failed: %s" % status)
        return events
    finally:
        shutil.rmtree(d, ignore_errors=True)


SAMPLE_ROWS = {"nameplates": [("app", 100, None, 5, "lonely"), (None, 2 ** 63 - 1, -2 ** 63, 0, "")],
               "mailboxes": [("app", 1, 100, 7, 3, "happy"), ("é", None, None, None, None, None)],
               "current": [(1, 2, None, 0)], "client_versions": []}


class C20(Check):
    id = "C20"
    level = "fault_enumeration"
    rule = ("Hypothesis builds a version-1 usage database (0-5 rows per table; NULLs, +-2^63 integers, floats, Unicode and empty "
            "strings; 0-2 status rows) with the repo's own v1 schema; create_or_upgrade_usage_db upgrades it in a forked child. "
            "Crash points: every traced event from opening the old file to the last upgrade statement (sqlite3.connect, pragmas, "
            "version query, shutil.copy before / half-way / after, every statement of the upgrade script, commit, close), child "
            "os._exit at event k; then 'start again' in a new child, possibly crashed once more (double fault). Quick: every "
            "crash point for a fixed sample database and one drawn crash point per generated database; thorough: every crash "
            "point for every generated database plus all double faults for the sample database. Oracle: uninterrupted -> rows of "
            "the three old tables identical (by rowid), sqlite_master equal to a freshly created current database, version row = "
            "2, backup byte-identical to the pre-upgrade file; interrupted at k -> records intact at the interruption, the next "
            "start succeeds and reaches the same final state with a byte-identical backup. Non-trivial = a database with >=1 row "
            "and a crash point after the first upgrade statement; distinct by hash of (rows, crash points).")
    level_text = ("Fault enumeration: every traced crash point of the v1->v2 usage upgrade is executed with a real process death "
                  "(fork + os._exit), followed by a restart (and a second fault in the thorough tier), over generated database "
                  "contents; row-for-row, schema and byte-identical-backup oracles.")
    level_note = ("Trusts SQLite's atomic commit/hot-journal rollback and the OS's file semantics; crash granularity is the traced "
                  "events (database.py's calls and SQLite statements) plus one point half-way through the backup copy.")
    technique = "crash-point enumeration (fork + os._exit at every traced call/statement, single and double faults) over Hypothesis-generated v1 databases, with row/schema/backup-bytes oracles"
    assumptions = ["a killed process leaves the files exactly as they are at the crash event; SQLite rolls back a dead writer's transaction on next open"]
    quick = dict(examples=400, workers=8)
    thorough = dict(examples=6000, workers=16)

    def strategy(self, tier):
        return st.tuples(usage_rows(), st.integers(0, 10 ** 6), st.integers(0, 10 ** 6))

    def execute(self, x, stats, tier):
        rows, p1, p2 = x
        events = count_events(rows)
        n = len(events)
        if tier == "thorough":
            cases = [[]] + [[k] for k in range(n)]
        else:
            cases = [[], [p1 % n], [p1 % n, p2 % n]]
        for faults in cases:
            kind, msg, info = _upgrade_case((rows, faults))
            if kind == "violation":
                raise Violation(msg, {"property": self.id, "rows": json.loads(json.dumps(rows, default=repr)), "faults": faults}, sig=info["sig"])
            nt = bool(info["nrows"]) and info["after_first_stmt"]
            stats.case(jhash([rows, faults]), nt, {"faults_%d" % len(faults): 1},
                       sample={"rows": {t: len(v) for t, v in rows.items()}, "interrupted_at": info["ats"]})

    def replay(self, payload, stats):
        rows = {t: [tuple(r) for r in v] for t, v in payload["rows"].items()}
        kind, msg, info = _upgrade_case((rows, payload["faults"]))
        if kind == "violation":
            raise Violation(msg, payload, sig=info["sig"])
        stats.case(jhash(payload), True, {}, sample=payload)

    def enumerate(self, tier, seed, stats):
        events = count_events(SAMPLE_ROWS)
        n = len(events)
        jobs = [(SAMPLE_ROWS, [])] + [(SAMPLE_ROWS, [k]) for k in range(n)]
        if tier == "thorough":
            jobs += [(SAMPLE_ROWS, [k, k2]) for k in range(n) for k2 in range(n)]
        else:
            jobs += [(SAMPLE_ROWS, [k, (k * 7 + 3) % n]) for k in range(n)]
        ctx = multiprocessing.get_context("fork")
        with ctx.Pool(8 if tier == "quick" else 16) as pool:
            results = pool.map(_upgrade_case, jobs, chunksize=4)
        for (rows, faults), (kind, msg, info) in zip(jobs, results):
            if kind == "violation":
                raise Violation(msg, {"property": self.id, "rows": json.loads(json.dumps(rows, default=repr)), "faults": faults}, sig=info["sig"])
            stats.evaluations += 1
            stats.count("enumerated_faults_%d" % len(faults))
            if info["after_first_stmt"]:
                stats.nontrivial.add("sample-%r" % (faults,))
        if len(stats.samples) <= stats.max_samples:
            stats.samples.append({"sample_database": "2 nameplate rows, 2 mailbox rows, 1 status row", "events": events})
        return {"crash_points_single": n, "double_faults": len(jobs) - n - 1, "events": events,
                "exhaustive": True,
                "exhaustive_scope": "every traced crash point (single fault) of the upgrade of the sample database; double faults: all pairs in the thorough tier, one per first fault in quick; generated databases are sampled"}
