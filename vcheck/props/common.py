"""Shared base classes for history-based checks."""
from hypothesis import strategies as st

from ..runner import Check, Violation, Stats
from ..world import World
from ..gen import Driver, PROFILES, intents_strategy, script_hash
from ..known import KnownFindingHit


class Observer(object):
    def __init__(self, world, cfg):
        self.w = world
        self.cfg = cfg
        self.classes = {}
        self.nt = False
        self.driver = None

    def count(self, k, n=1):
        self.classes[k] = self.classes.get(k, 0) + n

    def on_step(self, j, op, st, tr_before, gone):
        pass

    def finish(self):
        pass

    def nontrivial(self):
        return self.nt

    def fail(self, msg):
        raise Violation(msg)


class MultiObserver(Observer):
    def __init__(self, world, cfg, parts):
        Observer.__init__(self, world, cfg)
        self.parts = parts

    def on_step(self, *a):
        for p in self.parts:
            p.driver = self.driver
            p.on_step(*a)

    def finish(self):
        for p in self.parts:
            p.finish()
        for p in self.parts:
            for k, v in p.classes.items():
                self.classes[k] = self.classes.get(k, 0) + v

    def nontrivial(self):
        return any(p.nontrivial() for p in self.parts)


CFG_KEYS = ("usage", "blur", "allow_list", "motd", "advertise", "signal_error", "t0")


class HistoryCheck(Check):
    profile = "mixed"
    profiles = None      # optional list: one is drawn per case

    def cfg_strategy(self):
        return st.fixed_dictionaries({
            "usage": st.booleans(),
            "blur": st.sampled_from([None, None, 7, 3600]),
            "allow_list": st.booleans(),
        })

    def make_observer(self, world, cfg):
        raise NotImplementedError

    def strategy(self, tier):
        b = self.budgets(tier)
        names = self.profiles or [self.profile]

        def with_profile(name):
            return st.tuples(intents_strategy(PROFILES[name], b["max_ops"]),
                             self.cfg_strategy().map(lambda c: dict(c, profile=name)))
        if len(names) == 1:
            return with_profile(names[0])
        return st.sampled_from(names).flatmap(with_profile)

    def world_cfg(self, cfg):
        return cfg

    def execute(self, x, stats, tier):
        intents, cfg = x
        b = self.budgets(tier)
        with World(self.world_cfg(cfg)) as w:
            obs = self.make_observer(w, cfg)
            d = Driver(w, PROFILES[cfg.get("profile", self.profile)], on_step=obs.on_step,
                       max_ops=b["max_ops"] * 2)
            obs.driver = d
            try:
                d.run(intents)
                obs.finish()
            except KnownFindingHit as k:
                # a recorded known finding was hit exactly as recorded: no verdict
                stats.case(script_hash([cfg, d.script]), False, {"known_%s_hit" % k.fid: 1, "profile_" + cfg.get("profile", self.profile): 1})
                return
            except Violation as v:
                v.payload = {"property": self.id, "cfg": cfg, "script": list(d.script)}
                raise
            classes = dict(obs.classes)
            for k, v in d.counters.items():
                classes["gen_" + k] = v
            classes["profile_" + cfg.get("profile", self.profile)] = 1
            stats.case(script_hash([cfg, d.script]), obs.nontrivial(), classes,
                       sample={"cfg": cfg, "script": d.script})

    def replay(self, payload, stats):
        cfg = payload["cfg"]
        script = payload["script"]
        with World(self.world_cfg(cfg)) as w:
            obs = self.make_observer(w, cfg)
            d = Driver(w, PROFILES[cfg.get("profile", self.profile)], on_step=obs.on_step)
            obs.driver = d
            try:
                for op in script:
                    d.do(op)
                obs.finish()
            except KnownFindingHit:
                return
            except Violation as v:
                v.payload = {"property": self.id, "cfg": cfg, "script": script}
                raise
            stats.case(script_hash([cfg, script]), obs.nontrivial(), dict(obs.classes),
                       sample={"cfg": cfg, "script": script})
