"""Shared machinery of the differential / metamorphic checks (C06 C11 C14 C18)."""
from hypothesis import strategies as st

from .common import HistoryCheck, Observer
from ..runner import Violation, Check
from ..world import World
from ..script import Exec
from ..gen import Driver, PROFILES, intents_strategy, script_hash
from ..canon import Canon, script_literals
from ..known import KnownFindingHit, check_known


class Obs(object):
    __slots__ = ("op", "frames", "snap", "usnap", "errors", "ticks")

    def __init__(self, st):
        self.op = st.op
        self.frames = list(st.frames)
        self.snap = st.after
        self.usnap = st.uafter
        self.errors = list(st.errors)
        self.ticks = [(tk.t, tk.after, tk.uafter) for tk in st.ticks]


def run_script(cfg, script, uid=None, on_step=None, known=False):
    """Execute a concrete script on a fresh world; return the observations."""
    out = []
    with World(cfg, uid=uid) as w:
        ex = Exec(w)
        for op in script:
            st = ex.run_op(op)
            if known:
                check_known(st)
            out.append(Obs(st))
            if on_step:
                on_step(w, st)
            if w.crashed:
                break
    return out


def generate(cfg, profile, intents, max_ops, observer_factory=None):
    """Online generation on a primary world.  Returns (script, observations,
    driver counters, observer)."""
    out = []
    with World(cfg) as w:
        obs = observer_factory(w, cfg) if observer_factory else None

        def on_step(j, op, st, trb, gone):
            out.append(Obs(st))
            if obs is not None:
                obs.on_step(j, op, st, trb, gone)
        d = Driver(w, profile, on_step=on_step, max_ops=max_ops)
        if obs is not None:
            obs.driver = d
        d.run(intents)
        if obs is not None:
            obs.finish()
        return list(d.script), out, dict(d.counters), obs


def frames_by_conn(obs_list, canon, start=0, conns=None, drop_types=()):
    """Per-connection canonical frame streams from op index `start` on."""
    per = {}
    for i, o in enumerate(obs_list):
        if i < start:
            # still feed the canonicaliser so that names are assigned in
            # first-appearance order of the whole run
            for c, f in o.frames:
                canon.frame(f)
            continue
        for c, f in o.frames:
            cf = canon.frame(f)
            if conns is not None and c not in conns:
                continue
            if cf.get("type") in drop_types:
                continue
            per.setdefault(c, []).append((i, cf))
    return per


def jhash_none():
    return "known-finding-hit-during-generation"


def first_diff(a, b):
    """Human-readable first difference of two canonical structures."""
    if type(a) != type(b):
        return "%r != %r" % (a, b)
    if isinstance(a, dict):
        for k in sorted(set(a) | set(b), key=repr):
            if a.get(k) != b.get(k):
                return "[%r] %s" % (k, first_diff(a.get(k), b.get(k)))
    if isinstance(a, (list, tuple)):
        for i, (x, y) in enumerate(zip(a, b)):
            if x != y:
                return "[%d] %s" % (i, first_diff(x, y))
        if len(a) != len(b):
            return "length %d != %d; extra %r" % (len(a), len(b), (a[len(b):] or b[len(a):])[:2])
    return "%r != %r" % (a, b)


class DiffCheck(HistoryCheck):
    """A HistoryCheck whose case = (intents, cfg) and whose oracle compares
    several runs; subclasses implement compare(cfg, script, primary_obs)."""
    minimizable = True

    def make_profile(self, cfg):
        return PROFILES[cfg.get("profile", self.profile)]

    def primary_cfg(self, cfg):
        return cfg

    def judge(self, cfg, script, stats_classes):
        """Run the comparison worlds for a concrete script.  Raise Violation.
        Return nontrivial(bool)."""
        raise NotImplementedError

    def execute(self, x, stats, tier):
        intents, cfg = x
        b = self.budgets(tier)
        try:
            script, pobs, counters, _ = generate(self.primary_cfg(cfg), self.make_profile(cfg), intents, b["max_ops"] * 2)
        except KnownFindingHit as k:
            stats.case(jhash_none(), False, {"known_%s_hit" % k.fid: 1})
            return
        classes = {"gen_" + k: v for k, v in counters.items()}
        classes["profile_" + cfg.get("profile", self.profile)] = 1
        try:
            nt = self.judge(cfg, script, classes)
        except KnownFindingHit as k:
            stats.case(script_hash([cfg, script]), False, {"known_%s_hit" % k.fid: 1})
            return
        except Violation as v:
            v.payload = {"property": self.id, "cfg": cfg, "script": script}
            raise
        stats.case(script_hash([cfg, script]), nt, classes, sample={"cfg": cfg, "script": script})

    def replay(self, payload, stats):
        cfg, script = payload["cfg"], payload["script"]
        classes = {}
        try:
            nt = self.judge(cfg, script, classes)
        except KnownFindingHit:
            return
        except Violation as v:
            v.payload = {"property": self.id, "cfg": cfg, "script": script}
            raise
        stats.case(script_hash([cfg, script]), nt, classes, sample={"cfg": cfg, "script": script})
