"""Checks decided by the reference model (vcheck/model.py)."""
from hypothesis import strategies as st

from .common import HistoryCheck
from ..model import ModelObserver

NOTE = ("Trusts Hypothesis, CPython sqlite3/SQLite, Twisted's MemoryReactorClock/TimerService; the autobahn callback "
        "boundary is the system boundary; the reference model (vcheck/model.py) is written from the property statements "
        "and docs/server-protocol.md; rows are read through an independent read-only connection to the database files. "
        "Objects a refused third side has touched are adopted from the observed state (DESIGN O1); known finding R3 "
        "(same mailbox id in two apps) is excluded by construction.")
TECH = "Hypothesis-generated multi-connection histories (flow-structured, total orders of commands/disconnects/timer ticks/restarts) + executable reference model oracle, script-level ddmin"


class ModelCheck(HistoryCheck):
    nt_rule = None      # function(ev) -> bool
    level_note = NOTE
    technique = TECH
    usage_mode = "any"  # "any" | "on" | "off"

    def cfg_strategy(self):
        usage = {"any": st.booleans(), "on": st.just(True), "off": st.just(False)}[self.usage_mode]
        return st.fixed_dictionaries({
            "usage": usage,
            "blur": st.sampled_from([None, None, 7, 3600]),
            "allow_list": st.sampled_from([True, True, False]),
        })

    def make_observer(self, world, cfg):
        obs = ModelObserver(world, cfg, self.id)
        rule = self.nt_rule
        obs.nontrivial = lambda: (not obs.abandoned) and bool(rule(obs.ev))
        return obs
