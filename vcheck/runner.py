"""Runner: tiers, seeds, worker sharding, failure capture/shrinking, replay
files, known findings, evidence."""
import os, sys, json, time, hashlib, traceback, multiprocessing, warnings

from . import VERIF_DIR

# VCHECK_EVIDENCE_DIR / VCHECK_OUT_DIR: only for sensitivity runs against scratch
# copies (tools/mutants.py); registered commands never set them
EVIDENCE_DIR = os.environ.get("VCHECK_EVIDENCE_DIR") or os.path.join(VERIF_DIR, "evidence")
OUT_DIR = os.environ.get("VCHECK_OUT_DIR") or os.path.join(VERIF_DIR, "out", "replays")
REPLAY_DIR = os.path.join(VERIF_DIR, "replays")
KNOWN_FILE = os.path.join(VERIF_DIR, "known_findings.json")


import re as _re


def default_sig(msg):
    """Coarse signature of a violation message: first line, literals removed."""
    line = msg.split("\n")[0]
    m = _re.match(r"^op#\d+ .*? \(([a-z-]+)\): (.*)$", line)
    if m:
        line = m.group(1) + ": " + m.group(2)
    line = _re.sub(r"'[^']*'|\"[^\"]*\"", "S", line)
    line = _re.sub(r"[0-9]+(\.[0-9]+)?", "N", line)
    return line[:80]


class Violation(AssertionError):
    def __init__(self, msg, payload=None, sig=None):
        AssertionError.__init__(self, msg)
        self.msg = msg
        self.payload = payload or {}
        self.sig = sig or default_sig(msg)


class Vacuous(Exception):
    pass


def jhash(obj):
    return hashlib.sha1(json.dumps(obj, sort_keys=True, default=repr).encode()).hexdigest()[:16]


class Stats(object):
    """Per-process counters, merged by the parent."""

    def __init__(self):
        self.evaluations = 0
        self.nontrivial = set()
        self.classes = {}
        self.samples = []
        self._sizes = []
        self.max_samples = 4

    def count(self, k, n=1):
        self.classes[k] = self.classes.get(k, 0) + n

    def case(self, case_repr, nontrivial, classes=None, sample=None):
        self.evaluations += 1
        if classes:
            for k, v in classes.items():
                if v:
                    self.count(k, v if isinstance(v, int) and not isinstance(v, bool) else 1)
        if nontrivial:
            h = case_repr if isinstance(case_repr, str) else jhash(case_repr)
            if h not in self.nontrivial:
                self.nontrivial.add(h)
                smp = sample if sample is not None else case_repr
                # keep the shortest non-trivial cases as samples (readable, not truncated)
                size = len(json.dumps(smp, default=repr))
                if len(self.samples) < self.max_samples:
                    self.samples.append(smp)
                    self._sizes.append(size)
                else:
                    big = max(range(len(self._sizes)), key=lambda i: self._sizes[i])
                    if size < self._sizes[big]:
                        self.samples[big] = smp
                        self._sizes[big] = size

    def to_dict(self):
        return dict(evaluations=self.evaluations, nontrivial=sorted(self.nontrivial),
                    classes=self.classes, samples=self.samples)

    def merge_dict(self, d):
        self.evaluations += d["evaluations"]
        self.nontrivial |= set(d["nontrivial"])
        for k, v in d["classes"].items():
            self.classes[k] = self.classes.get(k, 0) + v
        for s in d["samples"]:
            size = len(json.dumps(s, default=repr))
            if len(self.samples) < self.max_samples:
                self.samples.append(s)
                self._sizes.append(size)
            else:
                while len(self._sizes) < len(self.samples):
                    self._sizes.append(len(json.dumps(self.samples[len(self._sizes)], default=repr)))
                big = max(range(len(self._sizes)), key=lambda i: self._sizes[i])
                if size < self._sizes[big]:
                    self.samples[big] = s
                    self._sizes[big] = size


def truncate_sample(obj, limit=4000):
    s = json.dumps(obj, default=repr, ensure_ascii=False)
    if len(s) <= limit:
        return obj
    return {"truncated_json": s[:limit] + "...", "full_length": len(s)}


class Check(object):
    """Base class of one property's check."""
    id = None
    level = "exploration"
    rule = ""
    assumptions = []
    quick = dict(examples=300, max_ops=40, workers=8)
    thorough = dict(examples=6000, max_ops=100, workers=16)
    floor = 2            # minimum distinct non-trivial cases, else exit 2 (vacuous)
    level_text = ""
    level_note = ""
    technique = "property-based testing (Hypothesis) of generated protocol histories against the real service"

    # -- to implement
    def strategy(self, tier):
        raise NotImplementedError

    def execute(self, x, stats, tier):
        """Run one generated case; raise Violation(msg, payload)."""
        raise NotImplementedError

    def replay(self, payload, stats):
        """Run one replay payload (no Hypothesis involved); raise Violation."""
        raise NotImplementedError

    def enumerate(self, tier, seed, stats):
        """Optional exhaustive parts.  Returns dict merged into coverage."""
        return {}

    def budgets(self, tier):
        return self.quick if tier == "quick" else self.thorough


def _silence():
    warnings.simplefilter("ignore")
    os.environ.setdefault("PYTHONWARNINGS", "ignore")


def _hyp_worker(args):
    check_id, tier, seed, widx, nworkers, examples = args
    _silence()
    from .props import get_check
    import hypothesis
    from hypothesis import given, settings, HealthCheck, Phase
    check = get_check(check_id)
    stats = Stats()
    fail = {}

    def body(x):
        try:
            check.execute(x, stats, tier)
        except Violation as v:
            fail["last"] = dict(v.payload, message=v.msg, sig=v.sig)
            raise

    phases = [Phase.generate]
    out = dict(failure=None, harness_error=None)
    # Hypothesis remembers every explored example (its novelty tree): ~0.4 MB per 100-op history.  The
    # budget is therefore spent in batches of BATCH examples, each a fresh run with its own derived seed.
    BATCH = 800
    done = 0
    batch = 0
    while done < examples and out["failure"] is None and out["harness_error"] is None:
        n = min(BATCH, examples - done)
        st = settings(max_examples=n, database=None, deadline=None,
                      report_multiple_bugs=False, phases=phases,
                      suppress_health_check=list(HealthCheck), print_blob=False)
        wseed = (int(seed) * 1000003 + widx * 7919 + 17 + batch * 104729) % (2 ** 63)
        test = hypothesis.seed(wseed)(st(given(check.strategy(tier))(body)))
        try:
            test()
        except Violation:
            out["failure"] = fail.get("last")
        except BaseException as e:   # harness problem, never a violation
            if "last" in fail and isinstance(e, AssertionError):
                out["failure"] = fail["last"]
            else:
                out["harness_error"] = "".join(traceback.format_exception(type(e), e, e.__traceback__))[-4000:]
                if "last" in fail:
                    out["failure_candidate"] = fail["last"]
        done += n
        batch += 1
        del test
        import gc
        gc.collect()
    out["stats"] = stats.to_dict()
    return out


# --------------------------------------------------------------------------
# script-level delta debugging (replaces Hypothesis's shrink phase, which
# cannot drop a connection without re-binding every later modulo choice)

def _refs_of(op):
    out = []
    if op.get("op") == "send":
        for v in op["msg"].values():
            if isinstance(v, dict) and len(v) == 1:
                k = next(iter(v))
                if k in ("$mb", "$np"):
                    out.append(v[k])
    return out


def _subscript(script, keep):
    """Sub-script of the ops whose indexes are in `keep` (sorted), with refs
    renumbered; ops whose referent or connection is gone are dropped too."""
    keep = sorted(keep)
    changed = True
    keepset = set(keep)
    while changed:
        changed = False
        connected = set()
        for i in sorted(keepset):
            op = script[i]
            bad = False
            if op.get("op") == "connect":
                connected.add(op["c"])
            elif "c" in op and op["c"] not in connected:
                bad = True
            if any(r not in keepset for r in _refs_of(op)):
                bad = True
            if "dup_of" in op and (op["dup_of"] not in keepset or (i - 1) not in keepset or (i - 2) not in keepset):
                bad = True
            if bad:
                keepset.discard(i)
                changed = True
    order = sorted(keepset)
    remap = {old: new for new, old in enumerate(order)}
    out = []
    for i in order:
        op = json.loads(json.dumps(script[i]))
        if op.get("op") == "send":
            for k, v in list(op["msg"].items()):
                if isinstance(v, dict) and len(v) == 1 and next(iter(v)) in ("$mb", "$np"):
                    kk = next(iter(v))
                    op["msg"][k] = {kk: remap[v[kk]]}
        if "dup_of" in op:
            op["dup_of"] = remap[op["dup_of"]]
        out.append(op)
    return out, order


def minimize(check, payload, max_runs=400):
    script = payload.get("script")
    if not isinstance(script, list) or len(script) < 2 or not getattr(check, "minimizable", True) or os.environ.get("VCHECK_NOMIN"):
        return payload
    runs = [0]
    target = payload.get("sig")

    def fails(cand):
        if runs[0] >= max_runs:
            return None
        runs[0] += 1
        p = dict(payload, script=cand)
        try:
            check.replay(p, Stats())
        except Violation as v:
            if target is None or v.sig == target:
                return v
            return None
        except Exception:
            return None
        return None

    v0 = fails(script)
    if v0 is None:
        return payload          # does not reproduce from the concrete script
    cur = list(range(len(script)))
    best_msg = v0.msg
    # 1. drop whole connections
    conns = sorted(set(op["c"] for op in script if "c" in op))
    for c in conns:
        cand_idx = [i for i in cur if script[i].get("c") != c]
        cand, order = _subscript(script, cand_idx)
        v = fails(cand)
        if v is not None:
            cur, best_msg = order, v.msg
    # 2. ddmin over single ops, from the end, repeated until fixpoint
    improved = True
    while improved and runs[0] < max_runs:
        improved = False
        n = len(cur)
        chunk = max(1, n // 2)
        while chunk >= 1 and runs[0] < max_runs:
            i = len(cur) - chunk
            while i >= 0 and runs[0] < max_runs:
                cand_idx = cur[:i] + cur[i + chunk:]
                cand, order = _subscript(script, cand_idx)
                if len(order) < len(cur):
                    v = fails(cand)
                    if v is not None:
                        cur, best_msg = order, v.msg
                        improved = True
                i -= chunk
            chunk //= 2
    final, _ = _subscript(script, cur)
    out = dict(payload, script=final, message=best_msg, minimized_from=len(script), minimize_runs=runs[0])
    return out


def load_known():
    if not os.path.exists(KNOWN_FILE):
        return []
    with open(KNOWN_FILE) as f:
        return json.load(f).get("findings", [])


def write_replay(check_id, payload):
    os.makedirs(OUT_DIR, exist_ok=True)
    path = os.path.join(OUT_DIR, "%s-%s.json" % (check_id, jhash(payload)))
    with open(path, "w") as f:
        json.dump(payload, f, indent=1, default=repr, ensure_ascii=False)
    return path


def run_replay_file(check, path, stats):
    with open(path) as f:
        payload = json.load(f)
    check.replay(payload, stats)


def write_evidence(check, tier, seed, stats, wall, violations, extra):
    os.makedirs(EVIDENCE_DIR, exist_ok=True)
    cov = dict(evaluations=stats.evaluations,
               distinct_nontrivial=len(stats.nontrivial),
               rule=check.rule,
               samples=[truncate_sample(s) for s in stats.samples] or ["<none>"],
               classes=dict(sorted(stats.classes.items())))
    cov.update(extra)
    ev = dict(property_id=check.id, tier=tier, seed=int(seed), level=check.level,
              coverage=cov, assumptions=list(check.assumptions), wall_s=round(wall, 2),
              violations=violations)
    path = os.path.join(EVIDENCE_DIR, "%s.json" % check.id)
    tmp = path + ".tmp"
    with open(tmp, "w") as f:
        json.dump(ev, f, indent=1, default=repr, ensure_ascii=False)
    os.replace(tmp, path)
    return path


def run_check(check, tier, seed):
    """Returns process exit code."""
    _silence()
    t0 = time.time()
    stats = Stats()
    extra = {}
    violations = []
    harness_errors = []
    known = [k for k in load_known() if k.get("property") == check.id]

    # 1. replay tier: committed minimal histories (regressions + known findings)
    rdir = os.path.join(REPLAY_DIR, check.id)
    replayed = 0
    known_by_replay = {k.get("replay"): k for k in known if k.get("status") == "known" and k.get("replay")}
    if os.path.isdir(rdir) and not os.environ.get("VCHECK_NOREPLAY"):      # (diagnostics: search without the replay tier)
        for fn in sorted(os.listdir(rdir)):
            if not fn.endswith(".json"):
                continue
            path = os.path.join(rdir, fn)
            rel = os.path.relpath(path, VERIF_DIR)
            replayed += 1
            try:
                run_replay_file(check, path, stats)
                if rel in known_by_replay:
                    print("NOTE: known finding %s no longer reproduces (%s)" % (known_by_replay[rel].get("id"), rel))
            except Violation as v:
                if rel in known_by_replay:
                    k = known_by_replay[rel]
                    print("KNOWN-FINDING: property=%s %s [%s]" % (check.id, k.get("what"), k.get("id")))
                    stats.count("known_finding_reproduced")
                else:
                    violations.append((path, v.msg))
            except Exception as e:
                harness_errors.append("replay %s: %s" % (rel, traceback.format_exc()[-2000:]))
    extra["replays_run"] = replayed

    # 2. generated search
    b = check.budgets(tier)
    nworkers = max(1, min(b.get("workers", 8), os.cpu_count() or 1))
    examples = b.get("examples", 0)
    if os.environ.get("VCHECK_WORKERS"):          # diagnostics only (coverage measurement)
        nworkers = int(os.environ["VCHECK_WORKERS"])
    if os.environ.get("VCHECK_EXAMPLES"):
        examples = int(os.environ["VCHECK_EXAMPLES"])
    if examples and not violations:
        per = max(1, examples // nworkers)
        jobs = [(check.id, tier, seed, i, nworkers, per) for i in range(nworkers)]
        if nworkers == 1:
            results = [_hyp_worker(jobs[0])]
        else:
            ctx = multiprocessing.get_context("fork")
            with ctx.Pool(nworkers) as pool:
                # (a worker killed by the OS would make a plain map() wait forever)
                results = pool.map_async(_hyp_worker, jobs, chunksize=1).get(timeout=8 * 3600)
        generated = sum(r["stats"]["evaluations"] for r in results)
        extra["examples_requested"] = per * nworkers
        extra["examples_executed"] = generated
        if generated < 0.5 * per * nworkers and not any(r.get("failure") for r in results):
            # Hypothesis gave up early (e.g. examples overrunning its buffer): the run would silently explore little
            harness_errors.append("only %d of %d requested examples were executed" % (generated, per * nworkers))
        for r in results:
            stats.merge_dict(r["stats"])
            if r.get("harness_error"):
                harness_errors.append(r["harness_error"])
            if r.get("failure"):
                try:
                    fl = minimize(check, r["failure"])
                except Exception:
                    fl = r["failure"]
                path = write_replay(check.id, fl)
                violations.append((path, fl.get("message", "")))

    # 3. exhaustive / enumerated parts
    if not violations and not harness_errors:
        try:
            extra.update(check.enumerate(tier, seed, stats) or {})
        except Violation as v:
            path = write_replay(check.id, dict(v.payload, message=v.msg))
            violations.append((path, v.msg))
        except Exception:
            harness_errors.append(traceback.format_exc()[-4000:])

    wall = time.time() - t0
    extra["workers"] = nworkers
    if known:
        extra["known_findings"] = [dict(id=k.get("id"), status=k.get("status"), what=k.get("what")) for k in known]
    # de-duplicate violations by message
    seen = set()
    uniq = []
    for path, msg in violations:
        key = default_sig(msg)
        if key in seen:
            continue
        seen.add(key)
        uniq.append((path, msg))
    write_evidence(check, tier, seed, stats, wall, len(uniq), extra)
    for path, msg in uniq:
        print("VIOLATION property=%s replay=%s" % (check.id, path))
        print("  " + msg.replace("\n", "\n  ")[:3000])
    if uniq:
        return 1
    if harness_errors:
        for h in harness_errors[:3]:
            sys.stderr.write("HARNESS ERROR (%s):\n%s\n" % (check.id, h))
        return 2
    if len(stats.nontrivial) < check.floor:
        sys.stderr.write("VACUOUS (%s): only %d distinct non-trivial cases (floor %d)\n"
                         % (check.id, len(stats.nontrivial), check.floor))
        return 2
    print("OK property=%s tier=%s seed=%s evaluations=%d distinct_nontrivial=%d wall=%.1fs"
          % (check.id, tier, seed, stats.evaluations, len(stats.nontrivial), wall))
    return 0


def run_single_replay(check, path):
    _silence()
    stats = Stats()
    try:
        run_replay_file(check, path, stats)
    except Violation as v:
        print("VIOLATION property=%s replay=%s" % (check.id, path))
        print("  " + v.msg.replace("\n", "\n  ")[:3000])
        return 1
    print("OK property=%s replay=%s (no violation)" % (check.id, path))
    return 0
