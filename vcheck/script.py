"""Script language: concrete ops, late-bound references, executor, and the
per-connection protocol tracker (the harness's own view of what each
connection has done - written from docs/server-protocol.md and the property
statements, not from the implementation's flags)."""
import json, copy

from .world import World, Crash, HarnessError

# op kinds:
#  {"op":"connect","c":cid}
#  {"op":"send","c":cid,"msg":{...},"rnd":[k,k2]}     msg values may be refs
#  {"op":"drop","c":cid}
#  {"op":"advance","dt":float,"fault":[tick indexes]}
#  {"op":"restart"} / {"op":"rephase"}
#  {"op":"fill","app":app,"names":[...],"side":side}
# refs inside msg:  {"$mb": j}  mailbox id in the `claimed` frame of script op j
#                   {"$np": j}  nameplate in the `allocated` frame of script op j


def is_ref(v):
    return isinstance(v, dict) and len(v) == 1 and next(iter(v)) in ("$mb", "$np")


class Exec(object):
    """Executes a concrete script on one world, resolving refs per world."""

    def __init__(self, world):
        self.w = world
        self.results = []      # script index -> Step (or None)
        self.learned = {}      # ("$mb"|"$np", j) -> value
        self.unresolved = 0
        self.fill_cid = 100000

    def resolve(self, v):
        if is_ref(v):
            k = next(iter(v))
            key = (k, v[k])
            if key in self.learned:
                return self.learned[key]
            self.unresolved += 1
            return "unresolved-%s-%s" % (k[1:], v[k])
        return v

    def resolve_msg(self, msg):
        return {k: self.resolve(v) for k, v in msg.items()}

    def run_op(self, op):
        w = self.w
        j = len(self.results)
        kind = op["op"]
        if kind == "connect":
            st = w.connect(op["c"], op=op)
        elif kind == "send":
            msg = self.resolve_msg(op["msg"])
            st = w.send(op["c"], msg, rnd=op.get("rnd", (0, 0)), op=dict(op, rmsg=msg))
            for cid, fr in st.frames:
                if cid == op["c"]:
                    if fr.get("type") == "claimed" and "mailbox" in fr:
                        self.learned[("$mb", j)] = fr["mailbox"]
                    elif fr.get("type") == "allocated" and "nameplate" in fr:
                        self.learned[("$np", j)] = fr["nameplate"]
        elif kind == "drop":
            st = w.drop(op["c"], op=op)
        elif kind == "advance":
            st = w.advance(op["dt"], op=op, fault_ticks=tuple(op.get("fault", ())))
        elif kind == "restart":
            st = w.restart(op=op)
        elif kind == "rephase":
            st = w.rephase_timer(op=op)
        elif kind == "fill":
            st = self._fill(op)
        else:
            raise HarnessError("unknown op %r" % (op,))
        self.results.append(st)
        return st

    def _fill(self, op):
        """Claim every name of op['names'] in op['app'] through throw-away
        connections (ordinary protocol traffic, compressed in the script)."""
        w = self.w
        first = None
        before = w.snapshot()
        ubefore = w.usnapshot()
        errors = []
        w.light = True
        for name in op["names"]:
            cid = self.fill_cid
            self.fill_cid += 1
            for st in (w.connect(cid),
                       w.send(cid, {"type": "bind", "appid": op["app"], "side": op.get("side", "filler")}),
                       w.send(cid, {"type": "claim", "nameplate": name}),
                       w.drop(cid)):
                errors.extend(st.errors)
                if first is None:
                    first = st
            del w.conns[cid]
        w.light = False
        del w.steps[-4 * len(op["names"]):]
        st = w.begin(op)
        st.before, st.ubefore = before, ubefore
        st.errors = errors
        w._finish(st)
        return st

    def run(self, script, on_step=None):
        for op in script:
            st = self.run_op(op)
            if on_step is not None:
                on_step(st)
            if self.w.crashed:
                break
        return self.results


# --------------------------------------------------------------------------
# per-connection protocol tracker

MUST_ERROR, OK, EITHER = "must_error", "ok", "either"


class CState(object):
    def __init__(self, cid):
        self.cid = cid
        self.alive = True
        self.app = None
        self.side = None
        self.bound = False
        self.did_allocate = False
        self.alloc_idx = None       # script idx of the successful allocate
        self.alloc_np = None
        self.claim_sent = False     # a claim carrying a nameplate was sent after bind
        self.claim_np = None        # its nameplate (resolved)
        self.claim_np_raw = None    # as written in the script (literal or ref)
        self.claim_ok = False
        self.claim_idx = None
        self.claim_refused = False
        self.release_done = False
        self.release_refused = False
        self.open_sent = False
        self.open_id = None         # mailbox named by the latest open/close (resolved)
        self.open_id_raw = None
        self.open_refused = False
        self.holds = False          # subscribed to open_id
        self.close_done = False
        self.close_refused = False
        self.last_ok_cmd = None     # (script idx, msg) of the last successfully answered claim/release/open/close

    def clone(self):
        return copy.copy(self)


def _err_frames(frames, cid):
    return [f for (c, f) in frames if c == cid and f.get("type") == "error"]


def classify(cs, msg):
    """Protocol-discipline expectation for sending msg on a connection in
    state cs.  Returns (verdict, kind).  MUST_ERROR only for the cases the
    property statement lists unambiguously; EITHER where the statement does
    not determine the outcome."""
    if "type" not in msg:
        return MUST_ERROR, "no-type"
    t = msg["type"]
    if not isinstance(t, str):
        return EITHER, "non-string-type"
    if t == "ping":
        if "ping" not in msg:
            return MUST_ERROR, "ping-missing-field"
        return OK, "ping"
    if t == "bind":
        if cs.bound:
            return MUST_ERROR, "second-bind"
        if "appid" not in msg or "side" not in msg:
            return MUST_ERROR, "bind-missing-field"
        return OK, "bind"
    known = ("list", "allocate", "claim", "release", "open", "add", "close")
    if not cs.bound:
        if t in known:
            return MUST_ERROR, "before-bind"
        return MUST_ERROR, "before-bind-unknown"
    if t not in known:
        return MUST_ERROR, "unknown-type"
    if t == "list":
        return OK, "list"
    if t == "allocate":
        if cs.did_allocate:
            return MUST_ERROR, "second-allocate"
        return OK, "allocate"
    if t == "claim":
        if "nameplate" not in msg:
            return MUST_ERROR, "claim-missing-field"
        if cs.claim_sent:
            # "claim may only be called once per connection" (protocol document):
            # also after a first claim that was refused as crowded/reclaimed
            if cs.claim_ok:
                return MUST_ERROR, "second-claim"
            return MUST_ERROR, "second-claim-after-refused-claim"
        return OK, "claim"
    if t == "release":
        if cs.release_done:
            return MUST_ERROR, "second-release"
        if cs.release_refused:
            return EITHER, "release-after-refused-release"
        if "nameplate" in msg:
            if cs.claim_sent and msg["nameplate"] != cs.claim_np:
                if cs.claim_ok:
                    return MUST_ERROR, "release-mismatch"
                return EITHER, "release-mismatch-after-refused-claim"
            if not cs.claim_sent and cs.did_allocate and msg["nameplate"] != cs.alloc_np:
                return EITHER, "release-other-after-allocate"
            return OK, "release"
        if not cs.claim_sent:
            if cs.did_allocate:
                return EITHER, "release-implicit-after-allocate"
            return MUST_ERROR, "release-implicit-without-claim"
        return OK, "release"
    if t == "open":
        if cs.holds:
            return MUST_ERROR, "open-while-held"
        if "mailbox" not in msg:
            return MUST_ERROR, "open-missing-field"
        if cs.open_sent:
            return EITHER, "open-again"
        return OK, "open"
    if t == "add":
        if not cs.holds:
            if cs.open_sent and not cs.close_done and not cs.open_refused:
                # the mailbox was deleted under this connection
                return MUST_ERROR, "add-after-deletion"
            return MUST_ERROR, "add-without-open"
        if "phase" not in msg or "body" not in msg:
            return MUST_ERROR, "add-missing-field"
        return OK, "add"
    if t == "close":
        if cs.close_done:
            return MUST_ERROR, "second-close"
        if cs.close_refused:
            return EITHER, "close-after-refused-close"
        if "mailbox" in msg:
            if cs.open_sent and msg["mailbox"] != cs.open_id:
                if cs.open_refused:
                    return EITHER, "close-mismatch-after-refused-open"
                return MUST_ERROR, "close-mismatch"
            return OK, "close"
        if not cs.open_sent:
            return MUST_ERROR, "close-implicit-without-open"
        return OK, "close"
    return EITHER, "?"


class Tracker(object):
    """Harness-side view of all connections (for generation and for C17)."""

    def __init__(self):
        self.conns = {}
        self.next_cid = 0

    def live(self):
        return [c for c in self.conns.values() if c.alive]

    def bound_live(self):
        return [c for c in self.conns.values() if c.alive and c.bound]

    def on_mailbox_deleted(self, app, mailbox_id):
        """Subscription ends when the mailbox is deleted."""
        for c in self.conns.values():
            if c.alive and c.holds and c.app == app and c.open_id == mailbox_id:
                c.holds = False

    def update(self, op, st, j):
        """Update from the executed op and its observed frames."""
        kind = op["op"]
        if kind == "connect":
            self.conns[op["c"]] = CState(op["c"])
            self.next_cid = max(self.next_cid, op["c"] + 1)
            return
        if kind == "drop":
            c = self.conns[op["c"]]
            c.alive = False
            c.holds = False
            return
        if kind in ("restart", "rephase"):
            for c in self.conns.values():
                c.alive = False
                c.holds = False
            return
        if kind != "send":
            return
        cs = self.conns[op["c"]]
        msg = st.op.get("rmsg", op["msg"])
        raw = op["msg"]
        verdict, ckind = classify(cs, msg)
        errs = _err_frames(st.frames, cs.cid)
        types = [f.get("type") for (c, f) in st.frames if c == cs.cid]
        refused = bool(errs)
        t = msg.get("type")
        if verdict == MUST_ERROR:
            return
        if t == "bind" and not refused:
            cs.bound = True
            cs.app = msg.get("appid")
            cs.side = msg.get("side")
        elif t == "allocate":
            if "allocated" in types:
                cs.did_allocate = True
                cs.alloc_idx = j
                cs.alloc_np = [f for (c, f) in st.frames if c == cs.cid and f.get("type") == "allocated"][0].get("nameplate")
        elif t == "claim" and "nameplate" in msg:
            if verdict == EITHER and refused:
                return
            cs.claim_sent = True
            cs.claim_np = msg["nameplate"]
            cs.claim_np_raw = raw["nameplate"]
            if "claimed" in types:
                cs.claim_ok = True
                cs.claim_idx = j
                cs.claim_refused = False
                cs.last_ok_cmd = (j, raw)
            else:
                cs.claim_refused = True
        elif t == "release":
            if "released" in types:
                cs.release_done = True
                cs.last_ok_cmd = (j, raw)
            else:
                cs.release_refused = True
        elif t == "open" and "mailbox" in msg:
            if verdict == EITHER and refused and not _crowded(errs):
                return
            cs.open_sent = True
            cs.open_id = msg["mailbox"]
            cs.open_id_raw = raw["mailbox"]
            if refused:
                cs.open_refused = True
            else:
                cs.open_refused = False
                cs.holds = True
                cs.last_ok_cmd = (j, raw)
        elif t == "close":
            if "closed" in types:
                if "mailbox" in msg and not cs.open_sent:
                    cs.open_sent = True
                    cs.open_id = msg["mailbox"]
                    cs.open_id_raw = raw["mailbox"]
                cs.close_done = True
                cs.holds = False
                cs.last_ok_cmd = (j, raw)
            else:
                cs.close_refused = True
                if "mailbox" in msg and not cs.open_sent and _crowded(errs):
                    cs.open_sent = True
                    cs.open_id = msg["mailbox"]
                    cs.open_id_raw = raw["mailbox"]
                    cs.open_refused = True


def _crowded(errs):
    return any(e.get("error") == "crowded" for e in errs)
