"""Setup self-test: imports the repo, builds one world, validates MANIFEST."""
import json, os, sys
from . import VERIF_DIR


def selftest():
    from .world import World
    with World({"usage": True}) as w:
        w.connect(0)
        st = w.send(0, {"type": "ping", "ping": 1})
        assert [f.get("type") for c, f in st.frames] == ["ack", "pong"], st.frames
    with open(os.path.join(VERIF_DIR, "MANIFEST.json")) as f:
        m = json.load(f)
    from .props import available
    have = set(available())
    for c in m["checks"]:
        assert c["property_id"] in have, c["property_id"]
    import hypothesis
    print("selftest ok: hypothesis %s, %d checks" % (hypothesis.__version__, len(m["checks"])))
    return 0
