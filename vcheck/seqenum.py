"""Bounded-exhaustive enumeration of short command sequences of a few sides
on one nameplate/mailbox (C05, C07, C08, C14): every word over
{claim, release, open, add, close, reconnect} x sides up to a length bound is
compiled online into a concrete script (each side drives one current
connection, reconnecting when a once-only command was already used) and
judged by the same observers as the generated histories."""
import itertools, multiprocessing

from .world import World
from .gen import Driver, PROFILES
from .runner import Violation, Stats

ACTIONS = ("claim", "release", "open", "add", "close", "reconnect")
NAME = "1"


class SeqDriver(object):
    def __init__(self, driver, sides, app="A", dup_at=None):
        self.d = driver
        self.app = app
        self.sides = sides
        self.cur = {}          # side -> cid
        self.first_claim = None
        self.dup_at = dup_at   # C14: duplicate the k-th successfully answered claim/release/open/close
        self.eligible = 0
        self.dup_done = False

    def maybe_dup(self, cs, j, msg, st):
        if self.dup_at is None or st is None:
            return
        types = [f.get("type") for (c, f) in st.frames if c == cs.cid]
        if "error" in types:
            return
        if self.eligible == self.dup_at:
            d = self.d
            ncid = d.tr.next_cid
            d.do({"op": "connect", "c": ncid}, force=True)
            d.do({"op": "send", "c": ncid, "msg": {"type": "bind", "appid": self.app, "side": cs.side}}, force=True)
            d.do({"op": "send", "c": ncid, "msg": dict(msg), "dup_of": j}, force=True)
            d.do({"op": "drop", "c": ncid}, force=True)
            self.dup_done = True
        self.eligible += 1

    def conn(self, side, fresh=False):
        d = self.d
        cid = self.cur.get(side)
        cs = d.tr.conns.get(cid) if cid is not None else None
        if cs is not None and cs.alive and not fresh:
            return cs
        if cs is not None and cs.alive:
            d.do({"op": "drop", "c": cid}, force=True)
        ncid = d.tr.next_cid
        d.do({"op": "connect", "c": ncid}, force=True)
        d.do({"op": "send", "c": ncid, "msg": {"type": "bind", "appid": self.app, "side": side}}, force=True)
        self.cur[side] = ncid
        return d.tr.conns[ncid]

    def mailbox(self):
        if self.first_claim is not None:
            return {"$mb": self.first_claim}
        return "m-direct"

    def step(self, side, action):
        d = self.d
        cs = self.conn(side)
        if action == "reconnect":
            was = cs
            cs = self.conn(side, fresh=True)
            return
        if action == "claim":
            if cs.claim_sent:
                cs = self.conn(side, fresh=True)
            j = len(d.script)
            msg = {"type": "claim", "nameplate": NAME}
            st = d.do({"op": "send", "c": cs.cid, "msg": msg}, force=True)
            if self.first_claim is None and any(f.get("type") == "claimed" for c, f in st.frames):
                self.first_claim = j
            self.maybe_dup(cs, j, msg, st)
        elif action == "release":
            if cs.release_done:
                cs = self.conn(side, fresh=True)
            j = len(d.script)
            msg = {"type": "release", "nameplate": NAME}
            st = d.do({"op": "send", "c": cs.cid, "msg": msg}, force=True)
            self.maybe_dup(cs, j, msg, st)
        elif action == "open":
            if cs.holds or cs.open_sent:
                cs = self.conn(side, fresh=True)
            j = len(d.script)
            msg = {"type": "open", "mailbox": self.mailbox()}
            st = d.do({"op": "send", "c": cs.cid, "msg": msg}, force=True)
            self.maybe_dup(cs, j, msg, st)
        elif action == "add":
            if cs.holds:
                d.do({"op": "send", "c": cs.cid, "msg": {"type": "add", "phase": "p", "body": side}}, force=True)
        elif action == "close":
            if cs.close_done:
                cs = self.conn(side, fresh=True)
            mb = cs.open_id_raw if cs.open_sent else self.mailbox()
            j = len(d.script)
            msg = {"type": "close", "mailbox": mb, "mood": "happy"}
            st = d.do({"op": "send", "c": cs.cid, "msg": msg}, force=True)
            self.maybe_dup(cs, j, msg, st)


def run_word(word, make_observer, cfg, sides):
    """word = tuple of (side index, action index).  Returns (script, observer)."""
    with World(cfg) as w:
        obs = make_observer(w, cfg)
        d = Driver(w, PROFILES["mixed"], on_step=obs.on_step)
        obs.driver = d
        sd = SeqDriver(d, sides)
        try:
            for si, ai in word:
                sd.step(sides[si], ACTIONS[ai])
            obs.finish()
        except Violation as v:
            v.payload = {"cfg": cfg, "script": list(d.script), "word": [[sides[s], ACTIONS[a]] for s, a in word]}
            raise
        return list(d.script), obs


_JOB = {}


def _chunk(args):
    import warnings
    warnings.simplefilter("ignore")
    check_id, cfg, sides, words = args
    from .props import get_check
    check = get_check(check_id)
    n = nt = 0
    ev = {}
    for word in words:
        try:
            script, obs = run_word(word, check.make_observer, cfg, sides)
        except Violation as v:
            return ("violation", v.msg, dict(v.payload, property=check_id), v.sig)
        n += 1
        if obs.nontrivial():
            nt += 1
        for k, val in getattr(obs, "ev", {}).items():
            if k in ("third_party_refused", "last_close", "last_release", "reclaimed", "first_two_side_returns_after_refusal", "close_again"):
                ev[k] = ev.get(k, 0) + 1
    return ("ok", n, nt, ev)


def enumerate_words(check, cfg, sides, max_len, workers, stats, label):
    nsym = len(sides) * len(ACTIONS)
    syms = [(s, a) for s in range(len(sides)) for a in range(len(ACTIONS))]
    words = []
    for L in range(1, max_len + 1):
        words.extend(itertools.product(syms, repeat=L))
    chunk = max(50, len(words) // (workers * 8))
    jobs = [(check.id, cfg, sides, words[i:i + chunk]) for i in range(0, len(words), chunk)]
    ctx = multiprocessing.get_context("fork")
    with ctx.Pool(workers) as pool:
        results = pool.map(_chunk, jobs, chunksize=1)
    total = nt = 0
    ev = {}
    for r in results:
        if r[0] == "violation":
            raise Violation("enumeration (%s, all words up to length %d): %s" % (label, max_len, r[1]), r[2], sig=r[3])
        total += r[1]
        nt += r[2]
        for k, v in r[3].items():
            ev[k] = ev.get(k, 0) + v
    stats.evaluations += total
    for i in range(nt):
        stats.nontrivial.add("%s-word-%d" % (label, i))
    for k, v in ev.items():
        stats.count("enum_" + k, v)
    if len(stats.samples) <= stats.max_samples:
        stats.samples.append({"enumerated_word_example": [[sides[s], ACTIONS[a]] for s, a in words[len(words) // 2]]})
    return {"enumerated_sequences": total, "enumerated_nontrivial": nt, "alphabet": nsym, "max_length": max_len,
            "exhaustive": True,
            "exhaustive_scope": "every word up to length %d over %s x %s on one nameplate (generated histories are sampled)" % (max_len, list(ACTIONS), list(sides))}


def compile_word(word, sides, cfg, dup_at=None):
    """Compile a word into a concrete script on a throw-away world (no observer)."""
    with World(cfg) as w:
        d = Driver(w, PROFILES["dups"])
        sd = SeqDriver(d, sides, dup_at=dup_at)
        for si, ai in word:
            sd.step(sides[si], ACTIONS[ai])
        return list(d.script), sd.dup_done


def _dup_chunk(args):
    import warnings
    warnings.simplefilter("ignore")
    cfg, sides, words = args
    from .props.c14 import C14
    check = C14()
    n = nt = 0
    for word in words:
        k = 0
        while True:
            script, done = compile_word(word, sides, cfg, dup_at=k)
            if not done:
                break
            classes = {}
            try:
                if check.judge(dict(cfg, profile="dups"), script, classes):
                    nt += 1
            except Violation as v:
                return ("violation", "word %r, duplicate of the %d-th acknowledged command: %s" % ([[sides[s], ACTIONS[a]] for s, a in word], k, v.msg),
                        {"property": "C14", "cfg": dict(cfg, profile="dups"), "script": script}, v.sig)
            n += 1
            k += 1
    return ("ok", n, nt)


def enumerate_dups(cfg, sides, max_len, workers, stats):
    syms = [(s, a) for s in range(len(sides)) for a in range(len(ACTIONS))]
    words = []
    for L in range(1, max_len + 1):
        words.extend(itertools.product(syms, repeat=L))
    chunk = max(20, len(words) // (workers * 8))
    jobs = [(cfg, sides, words[i:i + chunk]) for i in range(0, len(words), chunk)]
    ctx = multiprocessing.get_context("fork")
    with ctx.Pool(workers) as pool:
        results = pool.map(_dup_chunk, jobs, chunksize=1)
    total = nt = 0
    for r in results:
        if r[0] == "violation":
            raise Violation("enumeration of duplicates: " + r[1], r[2], sig=r[3])
        total += r[1]
        nt += r[2]
    stats.evaluations += total
    for i in range(nt):
        stats.nontrivial.add("dupword-%d" % i)
    return {"enumerated_duplicate_insertions": total, "enumerated_words": len(words), "max_length": max_len,
            "exhaustive": True,
            "exhaustive_scope": "every word up to length %d over %s x %s on one nameplate, with a duplicate inserted after every successfully answered claim/release/open/close (generated histories are sampled)" % (max_len, list(ACTIONS), list(sides))}
