"""Bounded-exhaustive timelines (C12, C13): every word up to a length bound over
{advance(dt) for dt on a boundary grid} + {open, add, drop, claim} for one
mailbox/nameplate and two sides, driven through the real service timer and
judged by the same observers as the generated histories."""
import itertools, multiprocessing

from .world import World, server_tap
from .gen import Driver, PROFILES
from .runner import Violation

ACTS = ("open", "add", "drop", "claim", "open2")


def grid():
    E = float(server_tap.CHANNEL_EXPIRATION_TIME)
    P = float(server_tap.EXPIRATION_CHECK_PERIOD)
    return [1.0, P - 0.5, P, P + 0.5, E - P - 0.25, E - P + 0.25, E - 0.25, E, E + 0.25]


class TimeDriver(object):
    def __init__(self, d):
        self.d = d
        self.cur = {}
        self.claim_idx = None

    def conn(self, side, fresh=False):
        d = self.d
        cid = self.cur.get(side)
        cs = d.tr.conns.get(cid) if cid is not None else None
        if cs is not None and cs.alive and not fresh:
            return cs
        if cs is not None and cs.alive:
            d.do({"op": "drop", "c": cid}, force=True)
        n = d.tr.next_cid
        d.do({"op": "connect", "c": n}, force=True)
        d.do({"op": "send", "c": n, "msg": {"type": "bind", "appid": "A", "side": side}}, force=True)
        self.cur[side] = n
        return d.tr.conns[n]

    def mailbox(self):
        return {"$mb": self.claim_idx} if self.claim_idx is not None else "m-time"

    def step(self, sym):
        d = self.d
        kind, val = sym
        if kind == "adv":
            d.do({"op": "advance", "dt": val}, force=True)
            return
        side = "s2" if val == "open2" else "s1"
        cs = self.conn(side)
        if val in ("open", "open2"):
            if cs.holds or cs.open_sent:
                cs = self.conn(side, fresh=True)
            d.do({"op": "send", "c": cs.cid, "msg": {"type": "open", "mailbox": self.mailbox()}}, force=True)
        elif val == "add":
            if cs.holds:
                d.do({"op": "send", "c": cs.cid, "msg": {"type": "add", "phase": "p", "body": "b"}}, force=True)
        elif val == "drop":
            if cs.alive:
                d.do({"op": "drop", "c": cs.cid}, force=True)
        elif val == "claim":
            if cs.claim_sent:
                cs = self.conn(side, fresh=True)
            j = len(d.script)
            st = d.do({"op": "send", "c": cs.cid, "msg": {"type": "claim", "nameplate": "1"}}, force=True)
            if any(f.get("type") == "claimed" for c, f in st.frames):
                self.claim_idx = j


def _chunk(args):
    import warnings
    warnings.simplefilter("ignore")
    check_id, cfg, words = args
    from .props import get_check
    check = get_check(check_id)
    n = nt = 0
    for word in words:
        with World(cfg) as w:
            obs = check.make_observer(w, cfg)
            d = Driver(w, PROFILES["clock"], on_step=obs.on_step)
            obs.driver = d
            td = TimeDriver(d)
            try:
                for sym in word:
                    td.step(sym)
                obs.finish()
            except Violation as v:
                return ("violation", "timeline %r: %s" % (list(word), v.msg),
                        {"property": check_id, "cfg": dict(cfg, profile="clock"), "script": list(d.script)}, v.sig)
            n += 1
            ev = getattr(obs, "ev", {})
            if ev.get("sweeps_deleting") or ev.get("subscriber_survived_sweep"):
                nt += 1
    return ("ok", n, nt)


def enumerate_timelines(check, cfg, max_len, workers, stats):
    syms = [("adv", dt) for dt in grid()] + [("act", a) for a in ACTS]
    words = []
    for L in range(1, max_len + 1):
        for wd in itertools.product(syms, repeat=L):
            if wd[0][0] == "adv" or wd[-1][0] != "adv":
                continue        # start with an action, end with time passing
            words.append(wd)
    chunk = max(25, len(words) // (workers * 8))
    jobs = [(check.id, cfg, words[i:i + chunk]) for i in range(0, len(words), chunk)]
    ctx = multiprocessing.get_context("fork")
    with ctx.Pool(workers) as pool:
        results = pool.map(_chunk, jobs, chunksize=1)
    total = nt = 0
    for r in results:
        if r[0] == "violation":
            raise Violation("enumeration of timelines: " + r[1], r[2], sig=r[3])
        total += r[1]
        nt += r[2]
    stats.evaluations += total
    for i in range(nt):
        stats.nontrivial.add("timeline-%d" % i)
    if len(stats.samples) <= stats.max_samples:
        stats.samples.append({"enumerated_timeline_example": [list(s) for s in words[len(words) // 3]]})
    return {"enumerated_timelines": total, "timeline_alphabet": [list(s) for s in syms], "timeline_max_length": max_len,
            "exhaustive": True,
            "exhaustive_scope": "every timeline up to length %d over time steps on the boundary grid %r and the actions %r for one mailbox/nameplate and two sides (starting with an action, ending with a time step), through the real service timer" % (max_len, grid(), list(ACTS))}
