"""The world harness: one real mailbox-server service under total control.

Nothing of the service is re-implemented: the real ``server_tap.makeService``
builds the real ``Server``, ``TimerService`` and web site; connections are real
``WebSocketServer`` protocol instances made by the real factory. The harness
only replaces the sources of non-determinism (module attributes ``time`` /
``random`` / ``os`` of the repo's modules, ``database.sqlite3``) *from the
outside* - no file under /repo is modified.
"""
import os, sys, json, shutil, tempfile, hashlib, random as _random
import sqlite3 as _sqlite3

from . import REPO  # noqa: F401  (side effect: sys.path)

from twisted.internet.testing import MemoryReactorClock
from twisted.python import log as twlog
from twisted.application.internet import TimerService, StreamServerEndpointService

from wormhole_mailbox_server import server_tap, server_websocket, database
from wormhole_mailbox_server import server as server_mod

EPOCH = 1700000000.25


class Crash(BaseException):
    """Simulated process death (passes every `except Exception`)."""


class HarnessError(Exception):
    """The harness itself cannot proceed (never reported as a violation)."""


_ACTIVE = None  # the world whose code is currently running


# --------------------------------------------------------------------------
# module-level shims (installed once per process)

class _VTime(object):
    def time(self):
        w = _ACTIVE
        if w is None:
            raise HarnessError("time() outside any world")
        w.time_reads += 1
        return w.vnow

    def __getattr__(self, name):
        import time as _t
        return getattr(_t, name)


class _RandomShim(object):
    """`choice`/`randrange` outcomes are inputs of the current command."""

    def choice(self, seq):
        w = _ACTIVE
        seq = list(seq)
        w.random_calls.append(("choice", len(seq)))
        try:
            ordered = sorted(seq)
        except TypeError:
            ordered = seq
        return ordered[w.rnd[0] % len(ordered)]

    def randrange(self, a, b=None, step=1):
        w = _ACTIVE
        if b is None:
            a, b = 0, a
        i = w.rnd_tries
        w.rnd_tries += 1
        w.random_calls.append(("randrange", a, b))
        return a + (w.rnd[1] + i * 7919) % (b - a)

    def __getattr__(self, name):
        # anything else: a deterministic generator seeded from the command
        w = _ACTIVE
        r = _random.Random(w.rnd[0] * 1000003 + w.rnd[1])
        return getattr(r, name)


class _OsShim(object):
    def urandom(self, n):
        w = _ACTIVE
        w.urandom_count += 1
        h = hashlib.sha256(("%s:%d" % (w.uid, w.urandom_count)).encode()).digest()
        while len(h) < n:
            h += hashlib.sha256(h).digest()
        return h[:n]

    def __getattr__(self, name):
        return getattr(os, name)


class TracingConnection(_sqlite3.Connection):
    def __init__(self, path, *a, **kw):
        _sqlite3.Connection.__init__(self, path, *a, **kw)
        self._w = _ACTIVE
        self._path = path
        if self._w is not None:
            self._w._register_conn(self, path)

    def _pre(self, sql):
        w = self._w
        if w is None:
            return
        if w.crashed:
            raise Crash()
        w.stmt_count += 1
        if w.stmt_log is not None:
            w.stmt_log.append((self._label, sql))
        if w.fault_next:
            w.fault_next = False
            w.faults_injected += 1
            raise _sqlite3.OperationalError("database is locked")

    def execute(self, sql, *args):
        self._pre(sql)
        return _sqlite3.Connection.execute(self, sql, *args)

    def executemany(self, sql, *args):
        self._pre(sql)
        return _sqlite3.Connection.executemany(self, sql, *args)

    def executescript(self, sql):
        self._pre(sql)
        return _sqlite3.Connection.executescript(self, sql)

    def commit(self):
        w = self._w
        if w is not None and w.crashed:
            raise Crash()
        effective = self.in_transaction
        _sqlite3.Connection.commit(self)
        if w is not None and effective:
            w._on_commit(self)


class _SqliteShim(object):
    def connect(self, path, *a, **kw):
        kw.setdefault("factory", TracingConnection)
        return _sqlite3.connect(path, *a, **kw)

    def __getattr__(self, name):
        return getattr(_sqlite3, name)


def _log_observer(event):
    w = _ACTIVE
    if w is not None and event.get("isError"):
        f = event.get("failure")
        if f is not None:
            txt = "%s: %s" % (f.type.__name__, f.getErrorMessage())
            try:
                tb = f.getTracebackObject()
                loc = _innermost_repo_frame(tb)
                if loc:
                    txt += " @ " + loc
            except Exception:
                pass
        else:
            txt = str(event.get("message") or event.get("format"))
        w.logged_errors.append(txt)


def _innermost_repo_frame(tb):
    loc = None
    while tb is not None:
        fn = tb.tb_frame.f_code.co_filename
        if "wormhole_mailbox_server" in fn and "/test/" not in fn:
            loc = "%s:%d %s" % (os.path.basename(fn), tb.tb_lineno,
                                tb.tb_frame.f_code.co_name)
        tb = tb.tb_next
    return loc


_INSTALLED = False


def install_shims():
    global _INSTALLED
    if _INSTALLED:
        return
    vt = _VTime()
    server_websocket.time = vt
    server_tap.time = vt
    server_mod.random = _RandomShim()
    server_mod.os = _OsShim()
    database.sqlite3 = _SqliteShim()
    server_tap.increase_rlimits = lambda: None
    # our observer becomes the only one: nothing is printed to stderr, and
    # failures swallowed by expire()/LoopingCall become visible to the harness
    from twisted.logger import globalLogBeginner
    try:
        globalLogBeginner.beginLoggingTo([], redirectStandardIO=False, discardBuffer=True)
    except Exception:
        pass
    twlog.addObserver(_log_observer)
    _INSTALLED = True


def scratch_root():
    for d in ("/dev/shm", tempfile.gettempdir()):
        if os.path.isdir(d) and os.access(d, os.W_OK):
            return d
    return tempfile.gettempdir()


# --------------------------------------------------------------------------
# snapshots

CHANNEL_TABLES = {
    "nameplates": "SELECT id, app_id, name, mailbox_id, request_id FROM nameplates ORDER BY 1,2,3,4,5",
    "nameplate_sides": "SELECT nameplates_id, claimed, side, added FROM nameplate_sides ORDER BY 1,3,2,4",
    "mailboxes": "SELECT app_id, id, updated, for_nameplate FROM mailboxes ORDER BY 1,2,3,4",
    "mailbox_sides": "SELECT mailbox_id, opened, side, added, mood FROM mailbox_sides ORDER BY 1,3,2,4,5",
    "messages": "SELECT app_id, mailbox_id, side, phase, body, server_rx, msg_id FROM messages ORDER BY 1,2,3,4,5,6,7",
}
USAGE_TABLES = {
    "nameplates": "SELECT app_id, started, waiting_time, total_time, result, rowid FROM nameplates ORDER BY rowid",
    "mailboxes": "SELECT app_id, for_nameplate, started, total_time, waiting_time, result, rowid FROM mailboxes ORDER BY rowid",
    "current": "SELECT rebooted, updated, blur_time, connections_websocket FROM current ORDER BY rowid",
    "client_versions": "SELECT app_id, side, connect_time, implementation, version, rowid FROM client_versions ORDER BY rowid",
}


def dump(conn, tables):
    out = {}
    for t, q in tables.items():
        out[t] = conn.execute(q).fetchall()
    return out


def snap_empty(snap):
    return all(len(v) == 0 for v in snap.values())


class Conn(object):
    def __init__(self, cid, p):
        self.cid = cid
        self.p = p
        self.frames = []      # every frame ever sent to it
        self.alive = True


class Step(object):
    __slots__ = ("idx", "op", "t", "frames", "before", "after", "ubefore",
                 "uafter", "errors", "ticks", "restarted")

    def __init__(self, idx, op, t):
        self.idx = idx
        self.op = op
        self.t = t
        self.frames = []     # [(cid, frame)]
        self.before = self.after = None
        self.ubefore = self.uafter = None
        self.errors = []     # internal errors (escaped exceptions, logged failures)
        self.ticks = []      # for advance: one record per timer instant
        self.restarted = False


class Tick(object):
    __slots__ = ("t", "before", "after", "ubefore", "uafter", "errors",
                 "frames", "faulted", "subscribed")

    def __init__(self, t):
        self.t = t
        self.errors = []
        self.frames = []
        self.faulted = False
        self.before = self.after = self.ubefore = self.uafter = None
        self.subscribed = None


class World(object):
    """One real service (plus its database files) under harness control."""

    _uid_counter = 0
    _closed_count = 0

    def __init__(self, cfg=None, uid=None, root=None, keep_dir=None):
        install_shims()
        cfg = dict(cfg or {})
        self.cfg = cfg
        World._uid_counter += 1
        self.uid = uid if uid is not None else "w%d" % World._uid_counter
        self.vnow = EPOCH + float(cfg.get("t0", 0.0))
        self.time_reads = 0
        self.rnd = (0, 0)
        self.rnd_tries = 0
        self.random_calls = []
        self.urandom_count = 0
        self.crashed = False
        self.crash_after = None      # global effective-commit index (1-based)
        self.commit_count = 0
        self.commit_log = None       # list of (label) when enabled
        self.stmt_count = 0
        self.stmt_log = None
        self.fault_next = False
        self.faults_injected = 0
        self.logged_errors = []
        self.frame_hooks = []        # f(world, cid, frame) at every outbound frame
        self.conns = {}
        self.steps = []
        self.cur_frames = None
        self.frame_seq = 0
        self.db_conns = []           # live server-side sqlite connections
        self.generation = 0          # service incarnations
        self.owns_dir = keep_dir is None
        self.dir = keep_dir or tempfile.mkdtemp(prefix="vcheck-", dir=root or scratch_root())
        self.channel_path = os.path.join(self.dir, "relay.sqlite")
        self.usage_path = os.path.join(self.dir, "usage.sqlite") if cfg.get("usage") else None
        self._reader = None
        self._ureader = None
        self.closed = False
        self.parent = None
        try:
            self._start_service()
        except BaseException:
            self.close()
            raise

    # ---- service life cycle

    def _activate(self):
        global _ACTIVE
        _ACTIVE = self

    def _argv(self):
        cfg = self.cfg
        argv = ["--port", "tcp:0", "--channel-db", self.channel_path]
        if self.usage_path:
            argv += ["--usage-db", self.usage_path]
        if cfg.get("blur"):
            argv += ["--blur-usage=%d" % cfg["blur"]]
        if not cfg.get("allow_list", True):
            argv += ["--disallow-list"]
        if cfg.get("motd") is not None:
            argv += ["--motd", cfg["motd"]]
        if cfg.get("advertise") is not None:
            argv += ["--advertise-version", cfg["advertise"]]
        if cfg.get("signal_error") is not None:
            argv += ["--signal-error", cfg["signal_error"]]
        return argv

    def _start_service(self):
        self._activate()
        self.generation += 1
        self.R = MemoryReactorClock()
        opts = server_tap.Options()
        opts.parseOptions(self._argv())
        self.options = opts
        parent = server_tap.makeService(opts, reactor=self.R)
        self.parent = parent
        self.server = None
        self.timer = None
        self.wsfactory = None
        for s in parent:
            if isinstance(s, server_mod.Server):
                self.server = s
            elif isinstance(s, TimerService):
                self.timer = s
            elif isinstance(s, StreamServerEndpointService):
                site = s.factory
                self.wsfactory = site.resource.children[b"v1"]._factory
        if self.server is None or self.timer is None or self.wsfactory is None:
            raise HarnessError("makeService() layout not recognised")
        self.timer.clock = self.R
        # the timer fires immediately on start: record it as a tick
        self.start_tick = self._run_tick(lambda: parent.startService())

    def _register_conn(self, conn, path):
        label = "usage" if (self.usage_path and os.path.abspath(path) == os.path.abspath(self.usage_path)) else "channel"
        conn._label = label
        self.db_conns.append(conn)

    def _on_commit(self, conn):
        self.commit_count += 1
        if self.commit_log is not None:
            self.commit_log.append((conn._label, self.cur_opidx))
        if self.crash_after is not None and self.commit_count == self.crash_after:
            self.crashed = True
            raise Crash()

    cur_opidx = None

    def server_conn(self, label):
        for c in reversed(self.db_conns):
            if getattr(c, "_label", None) == label:
                return c
        return None

    # ---- independent reader

    def _open_reader(self, path):
        return _sqlite3.connect("file:%s?mode=ro" % path, uri=True, timeout=0)

    def snapshot(self):
        if self._reader is None:
            self._reader = self._open_reader(self.channel_path)
        return dump(self._reader, CHANNEL_TABLES)

    def usnapshot(self):
        if not self.usage_path:
            return None
        if self._ureader is None:
            self._ureader = self._open_reader(self.usage_path)
        return dump(self._ureader, USAGE_TABLES)

    def own_snapshot(self):
        """The same dump through the server's own connection (what it acts on)."""
        c = self.server_conn("channel")
        rf = c.row_factory
        c.row_factory = None
        try:
            out = {}
            for t, q in CHANNEL_TABLES.items():
                out[t] = _sqlite3.Connection.execute(c, q).fetchall()
            return out
        finally:
            c.row_factory = rf

    def own_usnapshot(self):
        c = self.server_conn("usage")
        if c is None:
            return None
        rf = c.row_factory
        c.row_factory = None
        try:
            out = {}
            for t, q in USAGE_TABLES.items():
                out[t] = _sqlite3.Connection.execute(c, q).fetchall()
            return out
        finally:
            c.row_factory = rf

    # ---- frames

    def _on_frame(self, cid, payload):
        try:
            frame = json.loads(payload.decode("utf-8") if isinstance(payload, bytes) else payload)
        except Exception as e:
            frame = {"type": "<undecodable>", "raw": repr(payload), "err": str(e)}
        self.frame_seq += 1
        c = self.conns.get(cid)
        if c is not None:
            c.frames.append(frame)
        if self.cur_frames is not None:
            self.cur_frames.append((cid, frame))
        for h in self.frame_hooks:
            h(self, cid, frame)

    # ---- operations

    def _guarded(self, step_or_tick, fn):
        """Run fn(); record escaped exceptions and newly logged errors."""
        n0 = len(self.logged_errors)
        self.cur_frames = step_or_tick.frames
        try:
            fn()
        except Crash:
            self.crashed = True
        except HarnessError:
            raise
        except BaseException as e:
            if type(e).__name__ == "Violation":
                raise               # raised by a frame monitor of the harness, not by the server
            if self.crashed:
                pass
            else:
                loc = _innermost_repo_frame(e.__traceback__)
                step_or_tick.errors.append("escaped %s: %s @ %s" % (type(e).__name__, e, loc))
        finally:
            self.cur_frames = None
        if not self.crashed:
            for txt in self.logged_errors[n0:]:
                step_or_tick.errors.append("logged " + txt)

    def subscribed_count(self):
        """Connections that currently are subscribed according to the server's
        own connection objects (used only for evidence, never as an oracle)."""
        return sum(1 for c in self.conns.values() if c.alive and c.p._listening)

    def _run_tick(self, fn):
        tk = Tick(self.vnow)
        tk.before = self.snapshot() if os.path.exists(self.channel_path) else None
        tk.ubefore = self.usnapshot() if (self.usage_path and os.path.exists(self.usage_path)) else None
        if self.fault_armed:
            self.fault_armed = False
            self.fault_next = True
            tk.faulted = True
        self._guarded(tk, fn)
        self.fault_next = False
        if not self.crashed:
            tk.after = self.snapshot()
            tk.uafter = self.usnapshot()
        return tk

    fault_armed = False

    def begin(self, op):
        self._activate()
        if self.crashed:
            raise HarnessError("world is crashed")
        st = Step(len(self.steps), op, self.vnow)
        self.cur_opidx = st.idx
        self.steps.append(st)
        return st

    light = False   # when True, ops take no snapshots (bulk set-up traffic)

    def connect(self, cid, op=None):
        st = self.begin(op or {"op": "connect", "c": cid})
        if not self.light:
            st.before = self.snapshot()
            st.ubefore = self.usnapshot()
        p = self.wsfactory.buildProtocol(None)
        c = Conn(cid, p)
        self.conns[cid] = c
        p.sendMessage = lambda payload, isBinary=False, **kw: self._on_frame(cid, payload)
        self._guarded(st, p.onOpen)
        self._finish(st)
        return st

    def _finish(self, st):
        if not self.crashed and not self.light:
            st.after = self.snapshot()
            st.uafter = self.usnapshot()

    def send(self, cid, msg, rnd=(0, 0), op=None):
        st = self.begin(op or {"op": "send", "c": cid, "msg": msg})
        if not self.light:
            st.before = self.snapshot()
            st.ubefore = self.usnapshot()
        c = self.conns[cid]
        self.rnd = tuple(rnd)
        self.rnd_tries = 0
        payload = json.dumps(msg).encode("utf-8")
        self._guarded(st, lambda: c.p.onMessage(payload, False))
        self._finish(st)
        return st

    def drop(self, cid, op=None):
        st = self.begin(op or {"op": "drop", "c": cid})
        if not self.light:
            st.before = self.snapshot()
            st.ubefore = self.usnapshot()
        c = self.conns[cid]
        if c.alive:
            c.alive = False
            self._guarded(st, lambda: c.p.onClose(True, 1000, ""))
        self._finish(st)
        return st

    def next_timer(self):
        calls = [dc for dc in self.R.getDelayedCalls()]
        if not calls:
            return None
        return min(dc.getTime() for dc in calls)

    def advance(self, dt, op=None, fault_ticks=()):
        """Advance virtual time by dt, stopping at every timer instant."""
        st = self.begin(op or {"op": "advance", "dt": dt})
        st.before = self.snapshot()
        st.ubefore = self.usnapshot()
        remaining = float(dt)
        nticks = 0
        while True:
            nt = self.next_timer()
            if nt is None:
                step = remaining
            else:
                step = min(remaining, max(0.0, nt - self.R.seconds()))
            fires = nt is not None and (nt - self.R.seconds()) <= remaining
            if not fires:
                self.vnow += remaining
                self.R.advance(remaining)
                break
            self.vnow += step
            remaining -= step
            if nticks in fault_ticks:
                self.fault_armed = True
            tk = self._run_tick(lambda: self.R.advance(step))
            st.ticks.append(tk)
            st.errors.extend(tk.errors)
            nticks += 1
            if self.crashed:
                break
            if remaining <= 0:
                # make sure we do not loop on a timer scheduled at "now"
                nt2 = self.next_timer()
                if nt2 is None or nt2 - self.R.seconds() > 0:
                    break
        self._finish(st)
        return st

    def stop_service(self):
        self._activate()
        for c in list(self.conns.values()):
            if c.alive:
                c.alive = False
                try:
                    c.p.onClose(True, 1001, "going away")
                except Crash:
                    pass
        if self.parent is not None:
            try:
                self.parent.stopService()
            except Crash:
                pass
            self.parent = None
        self._close_db_conns()

    def _close_db_conns(self):
        for c in self.db_conns:
            try:
                _sqlite3.Connection.close(c)   # no commit: open transaction rolls back
            except Exception:
                pass
        self.db_conns = []
        for r in (self._reader, self._ureader):
            if r is not None:
                try:
                    r.close()
                except Exception:
                    pass
        self._reader = self._ureader = None

    def restart(self, op=None):
        st = self.begin(op or {"op": "restart"})
        st.before = self.snapshot()
        st.ubefore = self.usnapshot()
        st.restarted = True
        n0 = len(self.logged_errors)
        self.stop_service()
        self._start_service()
        st.ticks.append(self.start_tick)
        st.errors.extend(self.start_tick.errors)
        self._finish(st)
        return st

    def rephase_timer(self, op=None):
        """Reference side of restart comparisons: drop every connection and
        stop+start only the TimerService of the same service object."""
        st = self.begin(op or {"op": "rephase"})
        st.before = self.snapshot()
        st.ubefore = self.usnapshot()
        for c in list(self.conns.values()):
            if c.alive:
                c.alive = False
                self._guarded(st, lambda c=c: c.p.onClose(True, 1001, ""))
        self.timer.stopService()
        tk = self._run_tick(lambda: self.timer.startService())
        st.ticks.append(tk)
        st.errors.extend(tk.errors)
        self._finish(st)
        return st

    def recover_from_crash(self):
        """After a Crash: throw every in-memory object away, close the raw
        connections without commit, start a new service on the files."""
        self._activate()
        self.crashed_at = self.commit_count
        for c in self.conns.values():
            c.alive = False
        self.parent = None          # never stopService(): the process died
        self._close_db_conns()
        self.crashed = False
        self.crash_after = None
        self._start_service()
        return self.start_tick

    def close(self):
        if self.closed:
            return
        self.closed = True
        try:
            if not self.crashed:
                self.stop_service()
            else:
                self._close_db_conns()
        except BaseException:
            pass
        finally:
            global _ACTIVE
            if _ACTIVE is self:
                _ACTIVE = None
            if self.owns_dir:
                shutil.rmtree(self.dir, ignore_errors=True)
            # a world is one big reference cycle (service <-> protocols <-> recorder closures): break it and
            # let the collector run regularly, otherwise a long campaign grows by ~0.4 MB per case
            self.steps = []
            self.conns = {}
            self.frame_hooks = []
            self.parent = self.server = self.timer = self.wsfactory = self.R = None
            World._closed_count += 1
            if World._closed_count % 50 == 0:
                import gc
                gc.collect()

    def __enter__(self):
        return self

    def __exit__(self, *a):
        self.close()
